//! Shared plumbing: tiers, evidence files, replay files, known findings, hashing, runtime.

use serde_json::{json, Value};
use std::collections::BTreeMap;
use std::hash::{Hash, Hasher};
use std::path::PathBuf;
use std::sync::Mutex;
use std::time::Instant;

pub const VERIF_DIR: &str = "/verif";

#[derive(Clone, Copy, PartialEq, Eq, Debug)]
pub enum Tier {
    Quick,
    Thorough,
}

impl Tier {
    pub fn name(&self) -> &'static str {
        match self {
            Tier::Quick => "quick",
            Tier::Thorough => "thorough",
        }
    }
}

#[derive(Clone, Debug)]
pub struct Opts {
    pub tier: Tier,
    pub seed: i64,
    pub replay: Option<PathBuf>,
    /// wall-clock budget in seconds for thorough runs (engines stop expanding after this)
    pub budget_s: f64,
    pub extra: Vec<String>,
}

/// 128-bit deterministic hash of anything hashable (SipHash with fixed keys, two lanes).
pub fn h128<T: Hash>(t: &T) -> u128 {
    #[allow(deprecated)]
    let mut a = std::hash::SipHasher::new_with_keys(0x1234_5678, 0x9abc_def0);
    #[allow(deprecated)]
    let mut b = std::hash::SipHasher::new_with_keys(0x0fed_cba9, 0x8765_4321);
    t.hash(&mut a);
    t.hash(&mut b);
    ((a.finish() as u128) << 64) | (b.finish() as u128)
}

pub fn h64<T: Hash>(t: &T) -> u64 {
    #[allow(deprecated)]
    let mut a = std::hash::SipHasher::new_with_keys(0x1234_5678, 0x9abc_def0);
    t.hash(&mut a);
    a.finish()
}

/// A violation found by a check: a signature (used for known-finding matching), a human
/// description and a replayable description of the case.
#[derive(Clone, Debug)]
pub struct Violation {
    pub signature: String,
    pub what: String,
    pub replay: Value,
}

impl Violation {
    pub fn new(signature: impl Into<String>, what: impl Into<String>, replay: Value) -> Self {
        Violation {
            signature: signature.into(),
            what: what.into(),
            replay,
        }
    }
}

#[derive(Clone, Debug)]
pub struct KnownFinding {
    pub property: String,
    pub status: String, // "known" | "fixed"
    pub signature: String,
    pub what: String,
}

pub fn load_known_findings() -> Vec<KnownFinding> {
    let p = format!("{VERIF_DIR}/known_findings.json");
    let Ok(s) = std::fs::read_to_string(&p) else {
        return vec![];
    };
    let v: Value = serde_json::from_str(&s).expect("known_findings.json is not valid JSON");
    let mut out = vec![];
    for e in v["findings"].as_array().cloned().unwrap_or_default() {
        out.push(KnownFinding {
            property: e["property"].as_str().unwrap_or("").to_string(),
            status: e["status"].as_str().unwrap_or("").to_string(),
            signature: e["signature"].as_str().unwrap_or("").to_string(),
            what: e["what"].as_str().unwrap_or("").to_string(),
        });
    }
    out
}

/// Collects coverage counters and violations for one run of one property and writes the
/// evidence file / replay files / verdict lines.
pub struct Report {
    pub property: String,
    pub level: String,
    pub opts: Opts,
    pub start: Instant,
    pub coverage: Mutex<BTreeMap<String, Value>>,
    pub samples: Mutex<Vec<Value>>,
    pub assumptions: Mutex<Vec<String>>,
    pub violations: Mutex<Vec<Violation>>,
    pub counters: dashmap::DashMap<String, u64>,
}

impl Report {
    pub fn new(property: &str, level: &str, opts: &Opts) -> Self {
        Report {
            property: property.to_string(),
            level: level.to_string(),
            opts: opts.clone(),
            start: Instant::now(),
            coverage: Mutex::new(BTreeMap::new()),
            samples: Mutex::new(vec![]),
            assumptions: Mutex::new(vec![]),
            violations: Mutex::new(vec![]),
            counters: dashmap::DashMap::new(),
        }
    }

    pub fn elapsed(&self) -> f64 {
        self.start.elapsed().as_secs_f64()
    }

    pub fn over_budget(&self) -> bool {
        self.elapsed() > self.opts.budget_s
    }

    pub fn set(&self, key: &str, v: impl Into<Value>) {
        self.coverage.lock().unwrap().insert(key.to_string(), v.into());
    }

    pub fn add(&self, key: &str, n: u64) {
        *self.counters.entry(key.to_string()).or_insert(0) += n;
    }

    pub fn get(&self, key: &str) -> u64 {
        self.counters.get(key).map(|v| *v).unwrap_or(0)
    }

    pub fn sample(&self, v: Value) {
        let mut s = self.samples.lock().unwrap();
        if s.len() < 12 {
            s.push(v);
        }
    }

    pub fn assume(&self, s: &str) {
        self.assumptions.lock().unwrap().push(s.to_string());
    }

    pub fn violation(&self, v: Violation) {
        let mut vs = self.violations.lock().unwrap();
        // keep one per signature (the first, which the search order makes the simplest)
        if !vs.iter().any(|x| x.signature == v.signature) && vs.len() < 200 {
            vs.push(v);
        }
    }

    pub fn n_violations(&self) -> usize {
        self.violations.lock().unwrap().len()
    }

    /// Write evidence, classify violations against known findings, print verdict lines and
    /// return the process exit code.
    pub fn finish(&self) -> i32 {
        let known = load_known_findings();
        let mut vs = self.violations.lock().unwrap().clone();
        // replay-by-rerun: only the recorded violation counts, nothing is written
        let dry = std::env::var("TCMC_DRY").is_ok();
        if let Ok(sig) = std::env::var("TCMC_REPLAY_SIG") {
            vs.retain(|v| v.signature == sig);
        }
        if dry {
            for v in &vs {
                println!("replay: {}", v.what);
            }
            return if vs.is_empty() { 0 } else { 1 };
        }
        let mut new_violations = vec![];
        let mut known_hits = vec![];
        for v in &vs {
            let k = known.iter().find(|k| {
                k.property == self.property && k.status == "known" && sig_matches(&k.signature, &v.signature)
            });
            match k {
                Some(k) => known_hits.push((k.clone(), v.clone())),
                None => new_violations.push(v.clone()),
            }
        }
        // replay files
        // TCMC_OUT_DIR redirects evidence and replay files (experiments, seed trials); registered
        // commands never set it
        let out_dir = std::env::var("TCMC_OUT_DIR").unwrap_or_else(|_| VERIF_DIR.to_string());
        let _ = std::fs::create_dir_all(format!("{out_dir}/replays"));
        let mut lines = vec![];
        for v in &new_violations {
            let path = format!(
                "{out_dir}/replays/{}-{:016x}.json",
                self.property,
                h64(&v.signature)
            );
            let doc = json!({"property": self.property, "signature": v.signature, "what": v.what, "case": v.replay});
            let _ = std::fs::write(&path, serde_json::to_string_pretty(&doc).unwrap());
            lines.push(format!("VIOLATION property={} replay={}", self.property, path));
            eprintln!("violation [{}]: {}", v.signature, v.what);
        }
        let mut seen_known = std::collections::BTreeSet::new();
        for (k, v) in &known_hits {
            if seen_known.insert(k.signature.clone()) {
                println!("KNOWN-FINDING: property={} {} [{}]", self.property, k.what, v.signature);
            }
        }
        // evidence
        let mut cov = self.coverage.lock().unwrap().clone();
        for e in self.counters.iter() {
            cov.entry(e.key().clone()).or_insert(json!(*e.value()));
        }
        let samples = self.samples.lock().unwrap().clone();
        cov.insert("samples".into(), Value::Array(samples));
        cov.insert("known_findings_hit".into(), json!(known_hits.len()));
        let ev = json!({
            "property_id": self.property,
            "tier": self.opts.tier.name(),
            "seed": self.opts.seed,
            "level": self.level,
            "coverage": cov,
            "assumptions": self.assumptions.lock().unwrap().clone(),
            "wall_s": self.elapsed(),
            "violations": new_violations.len(),
        });
        let _ = std::fs::create_dir_all(format!("{out_dir}/evidence"));
        std::fs::write(
            format!("{out_dir}/evidence/{}.json", self.property),
            serde_json::to_string_pretty(&ev).unwrap(),
        )
        .expect("cannot write evidence file");
        for l in &lines {
            println!("{l}");
        }
        if new_violations.is_empty() {
            println!(
                "OK property={} tier={} wall_s={:.1}",
                self.property,
                self.opts.tier.name(),
                self.elapsed()
            );
            0
        } else {
            1
        }
    }
}

/// A known-finding signature matches when it is equal, or when the known signature ends in `*`
/// and is a prefix.
pub fn sig_matches(known: &str, actual: &str) -> bool {
    if let Some(p) = known.strip_suffix('*') {
        actual.starts_with(p)
    } else {
        known == actual
    }
}

thread_local! {
    /// location and message of the last panic on this thread (set by the panic hook)
    pub static LAST_PANIC: std::cell::RefCell<Option<(String, String)>> = const { std::cell::RefCell::new(None) };
}

/// Where the library under test was compiled from: /repo, or the scratch worktree of an isolated
/// seed trial (tools/try_seed_iso.sh sets TCMC_SUBJECT_DIR).
pub fn subject_dir() -> String {
    let mut d = std::env::var("TCMC_SUBJECT_DIR").unwrap_or_else(|_| "/repo".to_string());
    if !d.ends_with('/') {
        d.push('/');
    }
    d
}

/// Run `f`; a panic raised inside the library under test (location under /repo/) becomes
/// `Err("panic: ...")`, any other panic (harness, dependencies) continues to unwind.
pub fn catch_subject_panic<T>(f: impl FnOnce() -> T) -> Result<T, String> {
    LAST_PANIC.with(|c| *c.borrow_mut() = None);
    match std::panic::catch_unwind(std::panic::AssertUnwindSafe(f)) {
        Ok(v) => Ok(v),
        Err(p) => {
            let last = LAST_PANIC.with(|c| c.borrow().clone());
            match last {
                Some((loc, msg)) if loc.starts_with(&subject_dir()) => Err(format!("panic: the library panicked at {loc}: {}", msg.lines().last().unwrap_or(""))),
                _ => std::panic::resume_unwind(p),
            }
        }
    }
}

thread_local! {
    static RT: tokio::runtime::Runtime = tokio::runtime::Builder::new_current_thread()
        .enable_all()
        .build()
        .expect("tokio runtime");
}

/// Run a future to completion on this thread's current-thread runtime.
pub fn block_on<F: std::future::Future>(f: F) -> F::Output {
    RT.with(|rt| rt.block_on(f))
}

/// Run a (possibly !Send) future to completion inside a LocalSet on this thread's runtime.
pub fn block_on_local<F: std::future::Future>(f: F) -> F::Output {
    RT.with(|rt| {
        let ls = tokio::task::LocalSet::new();
        ls.block_on(rt, f)
    })
}

/// Poll a future exactly once with a no-op waker.
pub fn poll_once<F: std::future::Future + ?Sized>(f: std::pin::Pin<&mut F>) -> std::task::Poll<F::Output> {
    let waker = std::task::Waker::noop();
    let mut cx = std::task::Context::from_waker(waker);
    f.poll(&mut cx)
}

pub fn scratch_root() -> PathBuf {
    let p = PathBuf::from(format!("/dev/shm/tcmc-{}", std::process::id()));
    let _ = std::fs::create_dir_all(&p);
    p
}

pub fn cleanup_scratch() {
    let _ = std::fs::remove_dir_all(format!("/dev/shm/tcmc-{}", std::process::id()));
}

/// Outcome of re-executing a reported violation several times.
pub enum Confirmed {
    /// reproduced on every re-execution
    Always,
    /// reproduced on some re-executions only: the behaviour depends on something the harness does
    /// not control (e.g. hash-map iteration order inside the library); still a real observation
    Sometimes(u32, u32),
    /// never reproduced: the machinery cannot stand behind the report
    Never,
}

/// Re-execute a violation: `run` returns the violation message of one re-execution (None = no
/// violation). Two clean reproductions suffice; otherwise up to six attempts are made.
pub fn confirm_violation(mut run0: impl FnMut() -> Option<String>, class: &str) -> Confirmed {
    // a panic of the library during the re-execution is the violation's message again
    let mut run = || catch_subject_panic(&mut run0).unwrap_or_else(Some);
    let same = |m: &Option<String>| m.as_ref().is_some_and(|m| m.split(':').next().unwrap_or("") == class);
    let (a, b) = (run(), run());
    if same(&a) && same(&b) {
        return Confirmed::Always;
    }
    let mut hits = same(&a) as u32 + same(&b) as u32;
    let mut n = 2;
    while n < 6 {
        n += 1;
        if same(&run()) {
            hits += 1;
        }
    }
    if hits == 0 {
        Confirmed::Never
    } else {
        Confirmed::Sometimes(hits, n)
    }
}

/// Apply [`confirm_violation`] the way every check does: exit 2 when the violation never
/// reproduces, otherwise return a note to append to the message ("" when deterministic).
pub fn confirm_or_exit(prop: &str, what: &str, run: impl FnMut() -> Option<String>) -> String {
    let class = what.split(':').next().unwrap_or("");
    match confirm_violation(run, class) {
        Confirmed::Always => String::new(),
        Confirmed::Sometimes(k, n) => format!(" [reproduced in {k} of {n} re-executions: the outcome depends on something outside the harness's control, e.g. hash-map iteration order in the library]"),
        Confirmed::Never => {
            eprintln!("MACHINERY ERROR: {prop} violation does not reproduce on re-execution: {}", what.chars().take(400).collect::<String>());
            std::process::exit(2);
        }
    }
}
