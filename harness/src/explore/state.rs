//! E-STATE: explicit-state, depth-bounded search over real objects with iterative deepening.
//!
//! A system is given by its initial state, the actions enabled in a state, and a `step` that
//! executes the *real implementation* on a clone of the state. States are deduplicated by a
//! canonical 128-bit key; a state is re-expanded only when reached with more remaining depth
//! than before (sound under a depth bound). Work is split over rayon workers by depth-1/2
//! prefixes. Iterative deepening makes the first counterexample a shortest one.

use dashmap::DashMap;
use rayon::prelude::*;
use std::sync::atomic::{AtomicBool, AtomicU64, Ordering};

pub trait Sys: Sync {
    type State: Clone + Send + Sync;
    type Action: Clone + Send + Sync + std::fmt::Debug;

    fn init(&self) -> Self::State;
    fn actions(&self, s: &Self::State, depth_left: usize) -> Vec<Self::Action>;
    /// Execute one action on the real implementation. `Err` = a violation detected during the
    /// step itself.
    fn step(&self, s: &Self::State, a: &Self::Action) -> Result<Self::State, String>;
    fn canon(&self, s: &Self::State) -> u128;
    /// Evaluate the oracle on a (new) state. Returns `Ok(nontrivial)`.
    fn check(&self, s: &Self::State, trace: &[Self::Action]) -> Result<bool, String>;
    /// Should the search continue below this state?
    fn expand(&self, _s: &Self::State) -> bool {
        true
    }
}

#[derive(Default, Debug)]
pub struct StateStats {
    pub states: u64,
    pub transitions: u64,
    pub checks: u64,
    pub nontrivial: u64,
    pub depth_completed: usize,
    pub capped: bool,
}

pub struct Found<A> {
    pub what: String,
    pub trace: Vec<A>,
}

pub struct Search<'a, S: Sys> {
    sys: &'a S,
    visited: DashMap<u128, u8>,
    transitions: AtomicU64,
    checks: AtomicU64,
    nontrivial: AtomicU64,
    stop: AtomicBool,
    deadline: Option<std::time::Instant>,
    found: std::sync::Mutex<Vec<Found<S::Action>>>,
    max_found: usize,
    /// message classes that are collected (first occurrence each) without stopping the search
    tolerate: &'a [String],
    tolerated: std::sync::Mutex<Vec<Found<S::Action>>>,
    samples: std::sync::Mutex<Vec<Vec<S::Action>>>,
    par_levels: usize,
}

impl<'a, S: Sys> Search<'a, S> {
    fn dfs(&self, s: &S::State, trace: &mut Vec<S::Action>, left: usize) {
        if left == 0 || self.stop.load(Ordering::Relaxed) {
            return;
        }
        if let Some(d) = self.deadline {
            if self.transitions.load(Ordering::Relaxed) % 256 == 0 && std::time::Instant::now() > d {
                self.stop.store(true, Ordering::Relaxed);
                return;
            }
        }
        let acts = self.sys.actions(s, left);
        if trace.len() < self.par_levels {
            acts.into_par_iter().for_each(|a| {
                if self.stop.load(Ordering::Relaxed) {
                    return;
                }
                self.transitions.fetch_add(1, Ordering::Relaxed);
                let mut tr = trace.clone();
                tr.push(a.clone());
                match crate::util::catch_subject_panic(|| self.sys.step(s, &a)).and_then(|r| r) {
                    Err(what) => self.report(what, &tr),
                    Ok(ns) => self.visit(&ns, &mut tr, left - 1),
                }
            });
            return;
        }
        for a in acts {
            if self.stop.load(Ordering::Relaxed) {
                return;
            }
            self.transitions.fetch_add(1, Ordering::Relaxed);
            trace.push(a.clone());
            match crate::util::catch_subject_panic(|| self.sys.step(s, &a)).and_then(|r| r) {
                Err(what) => {
                    self.report(what, trace);
                }
                Ok(ns) => {
                    self.visit(&ns, trace, left - 1);
                }
            }
            trace.pop();
        }
    }

    fn report(&self, what: String, trace: &[S::Action]) {
        // one per distinct message class (text up to the first ':')
        let class = what.split(':').next().unwrap_or("").to_string();
        if self.tolerate.iter().any(|t| *t == class) {
            let mut t = self.tolerated.lock().unwrap();
            if !t.iter().any(|x| x.what.split(':').next().unwrap_or("") == class) {
                t.push(Found { what, trace: trace.to_vec() });
            }
            return;
        }
        let mut f = self.found.lock().unwrap();
        if f.iter().any(|x| x.what.split(':').next().unwrap_or("") == class) {
            return;
        }
        f.push(Found {
            what,
            trace: trace.to_vec(),
        });
        if f.len() >= self.max_found {
            self.stop.store(true, Ordering::Relaxed);
        }
    }

    fn visit(&self, ns: &S::State, trace: &mut Vec<S::Action>, left: usize) {
        let key = self.sys.canon(ns);
        let left8 = left.min(255) as u8;
        let mut first = false;
        let mut go = false;
        match self.visited.entry(key) {
            dashmap::mapref::entry::Entry::Occupied(mut e) => {
                if *e.get() < left8 {
                    *e.get_mut() = left8;
                    go = true;
                }
            }
            dashmap::mapref::entry::Entry::Vacant(e) => {
                e.insert(left8);
                first = true;
                go = true;
            }
        }
        if first {
            self.checks.fetch_add(1, Ordering::Relaxed);
            match crate::util::catch_subject_panic(|| self.sys.check(ns, trace)).and_then(|r| r) {
                Ok(nt) => {
                    if nt {
                        let n = self.nontrivial.fetch_add(1, Ordering::Relaxed);
                        if n < 3 {
                            self.samples.lock().unwrap().push(trace.clone());
                        }
                    }
                }
                Err(what) => {
                    self.report(what, trace);
                    // do not search below a violating state: everything below is broken too
                    self.visited.insert(key, 255);
                    return;
                }
            }
        }
        if go && self.sys.expand(ns) {
            self.dfs(ns, trace, left);
        }
    }
}

pub struct StateCfg {
    pub max_depth: usize,
    pub deadline: Option<std::time::Instant>,
    pub max_found: usize,
    /// start iterative deepening at this depth (1 = full ID)
    pub first_depth: usize,
    /// message classes (text up to the first ':') of listed known findings: their first occurrence
    /// is returned with the other findings, but they neither stop the search nor end the
    /// deepening (the violating state itself is still not expanded)
    pub tolerate: Vec<String>,
}

/// Iterative-deepening exploration. Returns stats, violations and a few sample traces.
#[allow(clippy::type_complexity)]
pub fn explore<S: Sys>(sys: &S, cfg: &StateCfg) -> (StateStats, Vec<Found<S::Action>>, Vec<Vec<S::Action>>) {
    let mut stats = StateStats::default();
    let mut all_found = vec![];
    let mut tolerated: Vec<Found<S::Action>> = vec![];
    let mut samples = vec![];
    let mut depth = cfg.first_depth.max(1).min(cfg.max_depth);
    loop {
        let search = Search {
            sys,
            visited: DashMap::new(),
            transitions: AtomicU64::new(0),
            checks: AtomicU64::new(0),
            nontrivial: AtomicU64::new(0),
            stop: AtomicBool::new(false),
            deadline: cfg.deadline,
            found: std::sync::Mutex::new(vec![]),
            max_found: cfg.max_found,
            tolerate: &cfg.tolerate,
            tolerated: std::sync::Mutex::new(vec![]),
            samples: std::sync::Mutex::new(vec![]),
            par_levels: 3,
        };
        let init = sys.init();
        let k0 = sys.canon(&init);
        search.visited.insert(k0, depth.min(255) as u8);
        search.checks.fetch_add(1, Ordering::Relaxed);
        if let Err(what) = sys.check(&init, &[]) {
            search.report(what, &[]);
        }
        let mut tr0 = vec![];
        search.dfs(&init, &mut tr0, depth);
        let capped = search.stop.load(Ordering::Relaxed) && search.found.lock().unwrap().is_empty();
        let found = std::mem::take(&mut *search.found.lock().unwrap());
        // the shallowest occurrence of each tolerated class
        for t in std::mem::take(&mut *search.tolerated.lock().unwrap()) {
            if !tolerated.iter().any(|x| x.what.split(':').next() == t.what.split(':').next()) {
                tolerated.push(t);
            }
        }
        stats.states = search.visited.len() as u64;
        stats.transitions += search.transitions.load(Ordering::Relaxed);
        stats.checks += search.checks.load(Ordering::Relaxed);
        stats.nontrivial = search.nontrivial.load(Ordering::Relaxed);
        samples = std::mem::take(&mut *search.samples.lock().unwrap());
        if capped {
            stats.capped = true;
            break;
        }
        if !found.is_empty() {
            all_found = found;
            // depth at which the (shortest) counterexample appears
            stats.depth_completed = depth.saturating_sub(1);
            break;
        }
        stats.depth_completed = depth;
        if depth >= cfg.max_depth {
            break;
        }
        depth += 1;
    }
    all_found.extend(tolerated);
    (stats, all_found, samples)
}
