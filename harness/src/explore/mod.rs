pub mod sched;
pub mod state;
