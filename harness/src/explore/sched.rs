//! E-SCHED: a controlled scheduler over real futures.
//!
//! Each party is a real future. Every request it makes passes a [`GateH`] whose `pass()` parks
//! the future (returns `Pending` after registering "parked at label"). The scheduler polls
//! exactly one task at a time: releasing task `t` lets it run through its gate, perform the
//! request's effect atomically, and continue to its next gate or to completion. Exploration is a
//! stateless depth-first search over choice sequences with iterative preemption bounding.

use std::future::Future;
use std::pin::Pin;
use std::sync::{Arc, Mutex};
use std::task::Poll;

/// What the scheduler tells a parked task when it releases it.
#[derive(Clone, Copy, Debug, PartialEq, Eq, Hash, serde::Serialize, serde::Deserialize)]
pub enum Go {
    Proceed,
    /// the request fails without effect
    FailBefore,
    /// the request takes effect and then reports failure / the reply is lost
    FailAfter,
}

#[derive(Default, Debug)]
pub struct SchedState {
    /// label at which each task is parked (None: running, finished or not yet parked)
    pub parked: Vec<Option<String>>,
    pub released: Vec<Option<Go>>,
    /// per task: running hash of everything it has seen (labels + shared-state hash at release)
    pub hist: Vec<u64>,
}

/// Handle given to the seams (server impls, storage proxies, object-store gate).
#[derive(Clone, Default)]
pub struct GateH {
    pub st: Option<Arc<Mutex<SchedState>>>,
    pub task: usize,
    /// worker-process mode: announce the label on stdout and wait for a line on stdin
    pub pipe: bool,
}

impl GateH {
    pub fn none() -> Self {
        GateH { st: None, task: 0, pipe: false }
    }

    pub fn pipe() -> Self {
        GateH { st: None, task: 0, pipe: true }
    }

    /// Park at `label` until the scheduler releases this task. Without a scheduler: proceed.
    pub fn pass(&self, label: String) -> GateFut {
        if self.pipe {
            // the scheduler lives in the parent process: tell it where we are and block until it
            // lets us go
            use std::io::{BufRead, Write};
            let mut o = std::io::stdout();
            let _ = writeln!(o, "P {label}");
            let _ = o.flush();
            let mut line = String::new();
            let n = std::io::stdin().lock().read_line(&mut line).unwrap_or(0);
            if n == 0 {
                // the parent is gone
                std::process::exit(3);
            }
        }
        GateFut {
            st: self.st.clone(),
            task: self.task,
            label: Some(label),
        }
    }
}

pub struct GateFut {
    st: Option<Arc<Mutex<SchedState>>>,
    task: usize,
    label: Option<String>,
}

impl Future for GateFut {
    type Output = Go;
    fn poll(mut self: Pin<&mut Self>, _cx: &mut std::task::Context<'_>) -> Poll<Go> {
        let Some(st) = self.st.clone() else {
            return Poll::Ready(Go::Proceed);
        };
        let mut st = st.lock().unwrap();
        if let Some(label) = self.label.take() {
            st.parked[self.task] = Some(label);
            return Poll::Pending;
        }
        match st.released[self.task].take() {
            Some(go) => {
                st.parked[self.task] = None;
                Poll::Ready(go)
            }
            None => Poll::Pending,
        }
    }
}

pub type TaskFut<T> = Pin<Box<dyn Future<Output = T>>>;

/// One execution under the scheduler.
pub struct Run<T> {
    pub st: Arc<Mutex<SchedState>>,
    pub tasks: Vec<Option<TaskFut<T>>>,
    pub results: Vec<Option<T>>,
    /// tasks that were stopped (future dropped at a gate)
    pub stopped: Vec<bool>,
}

impl<T> Run<T> {
    pub fn new(n: usize) -> (Self, Vec<GateH>) {
        let st = Arc::new(Mutex::new(SchedState {
            parked: vec![None; n],
            released: vec![None; n],
            hist: vec![0; n],
        }));
        let gates = (0..n)
            .map(|task| GateH {
                st: Some(st.clone()),
                task,
                pipe: false,
            })
            .collect();
        (
            Run {
                st,
                tasks: (0..n).map(|_| None).collect(),
                results: (0..n).map(|_| None).collect(),
                stopped: vec![false; n],
            },
            gates,
        )
    }

    /// Install task `i` and run it to its first gate (or completion).
    pub fn start(&mut self, i: usize, f: TaskFut<T>) {
        self.tasks[i] = Some(f);
        self.poll_task(i);
    }

    fn poll_task(&mut self, i: usize) {
        let mut spins = 0u64;
        let started = std::time::Instant::now();
        loop {
            let Some(f) = self.tasks[i].as_mut() else { return };
            match crate::util::poll_once(f.as_mut()) {
                Poll::Ready(v) => {
                    self.results[i] = Some(v);
                    self.tasks[i] = None;
                    return;
                }
                Poll::Pending => {
                    if self.st.lock().unwrap().parked[i].is_some() {
                        return;
                    }
                    // waiting on something real (another thread); poll again shortly
                    spins += 1;
                    if spins > 50 {
                        std::thread::sleep(std::time::Duration::from_micros(100));
                    } else {
                        std::thread::yield_now();
                    }
                    // wall-clock, generous: on a loaded machine a long storage call takes a while
                    if spins > 200_000 && started.elapsed().as_secs() > 900 {
                        panic!("task {i} neither parks nor finishes (machinery error)");
                    }
                }
            }
        }
    }

    /// Tasks currently parked at a gate, with their labels.
    pub fn parked(&self) -> Vec<(usize, String)> {
        let st = self.st.lock().unwrap();
        st.parked
            .iter()
            .enumerate()
            .filter_map(|(i, l)| l.clone().map(|l| (i, l)))
            .collect()
    }

    pub fn label(&self, i: usize) -> Option<String> {
        self.st.lock().unwrap().parked[i].clone()
    }

    pub fn all_done(&self) -> bool {
        self.tasks.iter().all(|t| t.is_none())
    }

    /// Release task `i` with decision `go` and run it to its next gate or completion.
    /// `state_hash` is folded into the task's history (the response it is about to see is a
    /// function of the request and the shared state).
    pub fn release(&mut self, i: usize, go: Go, state_hash: u64) {
        {
            let mut st = self.st.lock().unwrap();
            let label = st.parked[i].clone().expect("released task is not parked");
            st.hist[i] = crate::util::h64(&(st.hist[i], &label, go, state_hash));
            st.released[i] = Some(go);
        }
        self.poll_task(i);
    }

    /// Stop task `i` at its gate: the future is dropped and never resumes.
    pub fn stop(&mut self, i: usize) {
        self.tasks[i] = None;
        self.stopped[i] = true;
        let mut st = self.st.lock().unwrap();
        st.parked[i] = None;
    }

    pub fn hist(&self) -> Vec<u64> {
        self.st.lock().unwrap().hist.clone()
    }
}

/// One scheduling decision: which task, and how its request is answered.
#[derive(Clone, Copy, Debug, PartialEq, Eq, Hash, serde::Serialize, serde::Deserialize)]
pub struct Choice {
    pub task: usize,
    pub go: Go,
    /// true: the task is stopped at this gate instead of being released
    pub stop: bool,
}

impl Choice {
    pub fn run(task: usize) -> Self {
        Choice {
            task,
            go: Go::Proceed,
            stop: false,
        }
    }
}

/// A scenario explored by [`explore`].
pub trait Scenario: Sync {
    /// Per-execution context (shared state handles etc.)
    type Ctx;
    type Out;
    /// Build a fresh execution: context and one future per task (already wired to `gates`).
    fn build(&self, gates: Vec<GateH>) -> (Self::Ctx, Vec<TaskFut<Self::Out>>);
    fn n_tasks(&self) -> usize;
    /// Hash of the shared state (for history keys / pruning).
    fn state_hash(&self, ctx: &Self::Ctx) -> u64;
    /// Hash of everything the answer to the request `label` of task `task` can depend on
    /// (default: the whole shared state). A task is a deterministic function of the requests it
    /// made and the answers it got, so the chain of these hashes identifies its internal state.
    fn response_hash(&self, ctx: &Self::Ctx, _task: usize, _label: &str) -> u64 {
        self.state_hash(ctx)
    }
    /// Choices available when `parked` tasks wait (default: run any parked task, in canonical
    /// order: the last-run task first if parked, then ascending ids).
    fn choices(&self, _ctx: &Self::Ctx, parked: &[(usize, String)], last: Option<usize>) -> Vec<Choice> {
        let mut v: Vec<Choice> = vec![];
        if let Some(l) = last {
            if parked.iter().any(|(i, _)| *i == l) {
                v.push(Choice::run(l));
            }
        }
        for (i, _) in parked {
            if Some(*i) != last {
                v.push(Choice::run(*i));
            }
        }
        v
    }
    /// Is taking `c` at this point a deviation (preemption / fault) that counts against the bound?
    fn is_deviation(&self, c: &Choice, parked: &[(usize, String)], last: Option<usize>) -> bool {
        if c.stop || c.go != Go::Proceed {
            return true;
        }
        match last {
            Some(l) => c.task != l && parked.iter().any(|(i, _)| *i == l),
            None => false,
        }
    }
    /// Called after every step (for per-step invariants). Default none.
    fn after_step(&self, _ctx: &Self::Ctx, _trace: &[(Choice, String)]) -> Result<(), String> {
        Ok(())
    }
    /// Final check of a complete execution.
    fn check(
        &self,
        ctx: Self::Ctx,
        results: Vec<Option<Self::Out>>,
        stopped: &[bool],
        trace: &[(Choice, String)],
    ) -> Result<Outcome, String>;
}

/// What a complete execution looked like (for coverage accounting).
#[derive(Default, Clone)]
pub struct Outcome {
    /// hash of the final observable outcome
    pub outcome_hash: u64,
    /// the execution was non-trivial by the property's rule
    pub nontrivial: bool,
}

#[derive(Default)]
pub struct ExploreStats {
    pub schedules: u64,
    pub steps: u64,
    pub pruned: u64,
    pub max_len: usize,
    pub outcomes: std::collections::BTreeSet<u64>,
    pub nontrivial_outcomes: std::collections::BTreeSet<u64>,
    pub capped: bool,
    pub sample_traces: Vec<Vec<(Choice, String)>>,
}

impl ExploreStats {
    pub fn merge(&mut self, o: ExploreStats) {
        self.schedules += o.schedules;
        self.steps += o.steps;
        self.pruned += o.pruned;
        self.max_len = self.max_len.max(o.max_len);
        self.outcomes.extend(o.outcomes);
        self.nontrivial_outcomes.extend(o.nontrivial_outcomes);
        self.capped |= o.capped;
        for t in o.sample_traces {
            if self.sample_traces.len() < 3 {
                self.sample_traces.push(t);
            }
        }
    }
}

pub struct Failure {
    pub what: String,
    pub trace: Vec<(Choice, String)>,
}

struct Exec<S: Scenario> {
    run: Run<S::Out>,
    ctx: S::Ctx,
    trace: Vec<(Choice, String)>,
    /// at each point: (choices available, deviation count before this point, last task)
    points: Vec<(Vec<Choice>, usize, Option<usize>, Vec<(usize, String)>)>,
    deviations: usize,
    last: Option<usize>,
    /// running hash of everything observable (parked labels) up to and including each point
    point_hash: Vec<u64>,
    /// the execution was cut at this point because its state had been reached before
    truncated: bool,
}

const HORIZON: usize = 400;

/// Run one execution following `prefix` (indices into the choice lists), then default choices.
fn execute<S: Scenario>(sc: &S, prefix: &[usize], expect: Option<u64>, seen: Option<&dashmap::DashMap<u64, u32>>) -> Result<Exec<S>, Failure> {
    let n = sc.n_tasks();
    let (mut run, gates) = Run::new(n);
    let (ctx, futs) = sc.build(gates);
    for (i, f) in futs.into_iter().enumerate() {
        run.start(i, f);
    }
    let mut ex = Exec::<S> {
        run,
        ctx,
        trace: vec![],
        points: vec![],
        deviations: 0,
        last: None,
        point_hash: vec![],
        truncated: false,
    };
    let mut k = 0usize;
    let mut running = 0u64;
    loop {
        let parked = ex.run.parked();
        if parked.is_empty() {
            if !ex.run.all_done() {
                return Err(Failure {
                    what: "deadlock: unfinished tasks but none is parked".into(),
                    trace: ex.trace,
                });
            }
            break;
        }
        running = crate::util::h64(&(running, &parked));
        ex.point_hash.push(running);
        if let Some(e) = expect {
            if !prefix.is_empty() && k == prefix.len() - 1 && running != e {
                panic!("replay divergence: the execution observed while replaying a prefix differs from the one that produced it at point {k} (uncontrolled nondeterminism; machinery error)");
            }
        }
        if let Some(seen) = seen {
            if k >= prefix.len() {
                // `last` is part of the key: under a preemption bound, which continuations are affordable
                // depends on which task ran last
                let key = crate::util::h64(&(sc.state_hash(&ex.ctx), ex.run.hist(), &parked, &ex.run.stopped, ex.last));
                let devs = ex.deviations as u32;
                let mut known = false;
                match seen.entry(key) {
                    dashmap::mapref::entry::Entry::Occupied(mut e) => {
                        if *e.get() <= devs {
                            known = true;
                        } else {
                            *e.get_mut() = devs;
                        }
                    }
                    dashmap::mapref::entry::Entry::Vacant(e) => {
                        e.insert(devs);
                    }
                }
                if known {
                    ex.truncated = true;
                    ex.point_hash.pop();
                    break;
                }
            }
        }
        let choices = sc.choices(&ex.ctx, &parked, ex.last);
        if choices.is_empty() {
            return Err(Failure {
                what: format!("deadlock: tasks parked at {parked:?} but no choice is enabled"),
                trace: ex.trace,
            });
        }
        let idx = if k < prefix.len() {
            let i = prefix[k];
            assert!(
                i < choices.len(),
                "replay divergence: choice {i} out of range {} at point {k} (machinery error)",
                choices.len()
            );
            i
        } else {
            0
        };
        let c = choices[idx];
        let dev = sc.is_deviation(&c, &parked, ex.last);
        ex.points.push((choices, ex.deviations, ex.last, parked.clone()));
        if dev {
            ex.deviations += 1;
        }
        let label = ex.run.label(c.task).unwrap_or_default();
        if c.stop {
            ex.run.stop(c.task);
        } else {
            let h = sc.response_hash(&ex.ctx, c.task, &label);
            ex.run.release(c.task, c.go, h);
        }
        ex.last = Some(c.task);
        ex.trace.push((c, label));
        if let Err(e) = sc.after_step(&ex.ctx, &ex.trace) {
            return Err(Failure {
                what: e,
                trace: ex.trace,
            });
        }
        k += 1;
        if k > HORIZON {
            return Err(Failure {
                what: format!("livelock: execution exceeded the horizon of {HORIZON} steps"),
                trace: ex.trace,
            });
        }
    }
    Ok(ex)
}

pub struct ExploreCfg {
    /// maximal number of deviations (preemptions + faults); usize::MAX = unbounded
    pub bound: usize,
    pub max_schedules: u64,
    pub deadline: Option<std::time::Instant>,
    /// State-key pruning: an execution stops (and branches no further) as soon as it reaches a
    /// point whose key -- shared state, every task's request/answer history, where every task
    /// is parked -- was already reached with at most as many deviations. Requires
    /// `state_hash` / `response_hash` to be faithful. `None` = no pruning.
    pub seen: Option<std::sync::Arc<dashmap::DashMap<u64, u32>>>,
}

/// Result of one execution in the search.
struct OneRun {
    stats: ExploreStats,
    alts: Vec<(Vec<usize>, u64)>,
    failure: Option<Failure>,
}

fn run_one<S: Scenario>(sc: &S, cfg: &ExploreCfg, prefix: &[usize], expect: Option<u64>) -> OneRun {
    let mut stats = ExploreStats::default();
    let ex = match execute(sc, prefix, expect, cfg.seen.as_deref()) {
        Ok(ex) => ex,
        Err(f) => {
            stats.schedules += 1;
            stats.steps += f.trace.len() as u64;
            return OneRun {
                stats,
                alts: vec![],
                failure: Some(f),
            };
        }
    };
    stats.schedules += 1;
    stats.steps += ex.trace.len() as u64;
    stats.max_len = ex.trace.len();
    let mut chosen: Vec<usize> = prefix.to_vec();
    chosen.resize(ex.points.len(), 0);
    let mut alts: Vec<(Vec<usize>, u64)> = vec![];
    for i in prefix.len()..ex.points.len() {
        let (choices, devs_before, last, parked) = &ex.points[i];
        for alt in 1..choices.len() {
            let cost = devs_before + usize::from(sc.is_deviation(&choices[alt], parked, *last));
            if cost > cfg.bound {
                continue;
            }
            let mut p = chosen[..i].to_vec();
            p.push(alt);
            alts.push((p, ex.point_hash[i]));
        }
    }
    let trace = ex.trace.clone();
    let stopped = ex.run.stopped.clone();
    let mut failure = None;
    if ex.truncated {
        // everything from the cut point on is covered by the execution that reached it first
        stats.pruned += 1;
        return OneRun { stats, alts, failure: None };
    }
    match sc.check(ex.ctx, ex.run.results, &stopped, &trace) {
        Ok(o) => {
            stats.outcomes.insert(o.outcome_hash);
            if o.nontrivial {
                stats.nontrivial_outcomes.insert(o.outcome_hash);
                stats.sample_traces.push(trace);
            }
        }
        Err(e) => failure = Some(Failure { what: e, trace }),
    }
    OneRun {
        stats,
        alts,
        failure,
    }
}

/// Explore all executions of `sc` within the deviation bound (sequential, depth-first).
/// Returns stats and the first failures.
pub fn explore<S: Scenario>(sc: &S, cfg: &ExploreCfg) -> (ExploreStats, Vec<Failure>) {
    let mut stats = ExploreStats::default();
    let mut failures: Vec<Failure> = vec![];
    let mut stack: Vec<(Vec<usize>, Option<u64>)> = vec![(vec![], None)];
    while let Some((prefix, expect)) = stack.pop() {
        if stats.schedules >= cfg.max_schedules
            || (stats.schedules % 64 == 0 && cfg.deadline.is_some_and(|d| std::time::Instant::now() > d))
        {
            stats.capped = true;
            break;
        }
        let r = run_one(sc, cfg, &prefix, expect);
        stats.merge(r.stats);
        for (p, h) in r.alts.into_iter().rev() {
            stack.push((p, Some(h)));
        }
        if let Some(f) = r.failure {
            if failures.len() < 5 {
                failures.push(f);
            }
        }
    }
    (stats, failures)
}

/// Like [`explore`] but executions run in parallel (level-synchronous over the tree of choice
/// prefixes); for one big scenario.
pub fn explore_par<S: Scenario>(sc: &S, cfg: &ExploreCfg) -> (ExploreStats, Vec<Failure>) {
    use rayon::prelude::*;
    let mut stats = ExploreStats::default();
    let mut failures: Vec<Failure> = vec![];
    let mut frontier: Vec<(Vec<usize>, Option<u64>)> = vec![(vec![], None)];
    while !frontier.is_empty() {
        if stats.schedules >= cfg.max_schedules || cfg.deadline.is_some_and(|d| std::time::Instant::now() > d) {
            stats.capped = true;
            break;
        }
        // bound the batch so that caps are honoured with reasonable granularity
        let batch: Vec<(Vec<usize>, Option<u64>)> = if frontier.len() > 20_000 {
            frontier.split_off(frontier.len() - 20_000)
        } else {
            std::mem::take(&mut frontier)
        };
        let results: Vec<OneRun> = batch.par_iter().map(|(p, e)| run_one(sc, cfg, p, *e)).collect();
        for r in results {
            stats.merge(r.stats);
            frontier.extend(r.alts.into_iter().map(|(p, h)| (p, Some(h))));
            if let Some(f) = r.failure {
                if failures.len() < 5 {
                    failures.push(f);
                }
            }
        }
    }
    (stats, failures)
}

/// Soundness self-check of state-key pruning on one scenario: the set of distinct outcomes of
/// the pruned search must equal that of the unpruned search under the same deviation bound.
/// `None` = the unpruned search hit `cap` schedules, nothing was compared. A difference is a
/// machinery error (the caller exits 2), never a verdict about the subject.
pub fn pruning_selfcheck<S: Scenario>(sc: &S, bound: usize, cap: u64) -> Option<Result<usize, String>> {
    let plain = ExploreCfg { bound, max_schedules: cap, deadline: None, seen: None };
    let (a, fa) = explore(sc, &plain);
    if a.capped {
        return None;
    }
    let pruned = ExploreCfg { bound, max_schedules: cap, deadline: None, seen: Some(Default::default()) };
    let (b, fb) = explore(sc, &pruned);
    if a.outcomes != b.outcomes || fa.is_empty() != fb.is_empty() {
        return Some(Err(format!(
            "pruned search saw {} outcomes in {} schedules ({} failures), unpruned {} outcomes in {} schedules ({} failures)",
            b.outcomes.len(), b.schedules, fb.len(), a.outcomes.len(), a.schedules, fa.len()
        )));
    }
    Some(Ok(a.outcomes.len()))
}

/// Replay one explicit choice list (from a replay file) and return its trace and check result.
pub fn replay<S: Scenario>(sc: &S, choices: &[Choice]) -> Result<(Vec<(Choice, String)>, Result<Outcome, String>), String> {
    let n = sc.n_tasks();
    let (mut run, gates) = Run::new(n);
    let (ctx, futs) = sc.build(gates);
    for (i, f) in futs.into_iter().enumerate() {
        run.start(i, f);
    }
    let mut trace = vec![];
    for c in choices {
        let Some(label) = run.label(c.task) else {
            return Err(format!("replay divergence: task {} is not parked at step {}", c.task, trace.len()));
        };
        if c.stop {
            run.stop(c.task);
        } else {
            let h = sc.state_hash(&ctx);
            run.release(c.task, c.go, h);
        }
        trace.push((*c, label));
        if let Err(e) = sc.after_step(&ctx, &trace) {
            return Ok((trace, Err(e)));
        }
    }
    // finish remaining tasks with the scenario's default choices
    let mut last = choices.last().map(|c| c.task);
    loop {
        let parked = run.parked();
        if parked.is_empty() {
            break;
        }
        let Some(c) = sc.choices(&ctx, &parked, last).first().copied() else {
            return Ok((trace, Err(format!("deadlock: tasks parked at {parked:?} but no choice is enabled"))));
        };
        let label = run.label(c.task).unwrap_or_default();
        let h = sc.state_hash(&ctx);
        if c.stop {
            run.stop(c.task);
        } else {
            run.release(c.task, c.go, h);
        }
        last = Some(c.task);
        trace.push((c, label));
    }
    let stopped = run.stopped.clone();
    let r = sc.check(ctx, run.results, &stopped, &trace);
    Ok((trace, r))
}
