//! Reference semantics of operations, written from docs/src/storage.md and sync-protocol.md
//! (never from the crate's source): application of Create/Update/Delete to a task set,
//! tolerant of invalid operations, and the strict wire format of a version.

use serde_json::Value;
use std::collections::BTreeMap;
use uuid::Uuid;

pub type TaskProps = BTreeMap<String, String>;
pub type Tasks = BTreeMap<Uuid, TaskProps>;

#[derive(Clone, Debug, PartialEq, Eq, Hash, PartialOrd, Ord, serde::Serialize, serde::Deserialize)]
pub enum MOp {
    Create(Uuid),
    Delete(Uuid),
    Update {
        uuid: Uuid,
        prop: String,
        value: Option<String>,
        /// the timestamp exactly as written on the wire
        ts: String,
    },
}

impl MOp {
    pub fn uuid(&self) -> Uuid {
        match self {
            MOp::Create(u) | MOp::Delete(u) => *u,
            MOp::Update { uuid, .. } => *uuid,
        }
    }
}

/// Apply one operation: create makes an empty task unless it exists; update sets or removes one
/// property of an existing task; delete removes an existing task; operations on missing tasks
/// change nothing.
pub fn apply(tasks: &mut Tasks, op: &MOp) {
    match op {
        MOp::Create(u) => {
            tasks.entry(*u).or_default();
        }
        MOp::Delete(u) => {
            tasks.remove(u);
        }
        MOp::Update {
            uuid, prop, value, ..
        } => {
            if let Some(t) = tasks.get_mut(uuid) {
                match value {
                    Some(v) => {
                        t.insert(prop.clone(), v.clone());
                    }
                    None => {
                        t.remove(prop);
                    }
                }
            }
        }
    }
}

pub fn apply_all<'a>(tasks: &mut Tasks, ops: impl IntoIterator<Item = &'a MOp>) {
    for op in ops {
        apply(tasks, op);
    }
}

/// Strictly parse a version document as this implementation emits it: a JSON object with the
/// single key `operations` holding an array of `{TYPE: DATA}` entries with exactly the documented
/// fields. Anything else (extra fields such as old values, unknown types, undo points) is an
/// error.
pub fn parse_version_strict(bytes: &[u8]) -> Result<Vec<MOp>, String> {
    let s = std::str::from_utf8(bytes).map_err(|e| format!("version is not UTF-8: {e}"))?;
    let v: Value = serde_json::from_str(s).map_err(|e| format!("version is not JSON: {e}"))?;
    let obj = v.as_object().ok_or("version is not a JSON object")?;
    if obj.len() != 1 || !obj.contains_key("operations") {
        return Err(format!(
            "version object must have exactly the key 'operations', has {:?}",
            obj.keys().collect::<Vec<_>>()
        ));
    }
    let arr = obj["operations"].as_array().ok_or("'operations' is not an array")?;
    let mut out = vec![];
    for e in arr {
        out.push(parse_op_strict(e)?);
    }
    Ok(out)
}

fn parse_op_strict(e: &Value) -> Result<MOp, String> {
    let o = e.as_object().ok_or("operation is not an object")?;
    if o.len() != 1 {
        return Err(format!("operation must have one key, has {:?}", o.keys().collect::<Vec<_>>()));
    }
    let (ty, data) = o.iter().next().unwrap();
    let d = data.as_object().ok_or("operation data is not an object")?;
    let uuid_of = |d: &serde_json::Map<String, Value>| -> Result<Uuid, String> {
        let s = d.get("uuid").and_then(|u| u.as_str()).ok_or("missing uuid")?;
        Uuid::parse_str(s).map_err(|e| format!("bad uuid {s}: {e}"))
    };
    let keys: Vec<&str> = {
        let mut k: Vec<&str> = d.keys().map(|s| s.as_str()).collect();
        k.sort();
        k
    };
    match ty.as_str() {
        "Create" => {
            if keys != ["uuid"] {
                return Err(format!("Create has fields {keys:?}"));
            }
            Ok(MOp::Create(uuid_of(d)?))
        }
        "Delete" => {
            if keys != ["uuid"] {
                return Err(format!("Delete has fields {keys:?}"));
            }
            Ok(MOp::Delete(uuid_of(d)?))
        }
        "Update" => {
            if keys != ["property", "timestamp", "uuid", "value"] {
                return Err(format!("Update has fields {keys:?}"));
            }
            let prop = d["property"].as_str().ok_or("property is not a string")?.to_string();
            let value = match &d["value"] {
                Value::Null => None,
                Value::String(s) => Some(s.clone()),
                other => return Err(format!("value is neither string nor null: {other}")),
            };
            let ts = d["timestamp"].as_str().ok_or("timestamp is not a string")?.to_string();
            if !ts.ends_with('Z') {
                return Err(format!("timestamp {ts} lacks the Z suffix"));
            }
            chrono::DateTime::parse_from_rfc3339(&ts).map_err(|e| format!("timestamp {ts} is not RFC 3339: {e}"))?;
            Ok(MOp::Update {
                uuid: uuid_of(d)?,
                prop,
                value,
                ts,
            })
        }
        other => Err(format!("unknown operation type {other}")),
    }
}

/// `parse_version_strict` memoised by content hash for large documents (the 1 MB versions
/// are parsed thousands of times otherwise).
pub fn parse_version_cached(bytes: &[u8]) -> Result<std::sync::Arc<Vec<MOp>>, String> {
    use std::sync::{Arc, OnceLock};
    static CACHE: OnceLock<dashmap::DashMap<(u128, usize), Arc<Vec<MOp>>>> = OnceLock::new();
    if bytes.len() < 4096 {
        return Ok(Arc::new(parse_version_strict(bytes)?));
    }
    let key = (crate::util::h128(&bytes), bytes.len());
    let cache = CACHE.get_or_init(Default::default);
    if let Some(v) = cache.get(&key) {
        return Ok(v.clone());
    }
    let v = Arc::new(parse_version_strict(bytes)?);
    cache.insert(key, v.clone());
    Ok(v)
}

/// Replay a list of version documents, in order, onto an empty task set.
pub fn replay_chain<'a>(segments: impl IntoIterator<Item = &'a [u8]>) -> Result<Tasks, String> {
    let mut tasks = Tasks::new();
    for seg in segments {
        let ops = parse_version_cached(seg)?;
        apply_all(&mut tasks, ops.iter());
    }
    Ok(tasks)
}

/// The documented conversion of a local operation to its synchronized form (storage.md,
/// "Synchronizing Operations"): undo points are dropped, old values / old tasks are dropped.
pub fn to_sync(op: &taskchampion::Operation) -> Option<MOp> {
    use taskchampion::Operation as O;
    match op {
        O::Create { uuid } => Some(MOp::Create(*uuid)),
        O::Delete { uuid, .. } => Some(MOp::Delete(*uuid)),
        O::Update {
            uuid,
            property,
            value,
            timestamp,
            ..
        } => Some(MOp::Update {
            uuid: *uuid,
            prop: property.clone(),
            value: value.clone(),
            ts: timestamp.to_rfc3339_opts(chrono::SecondsFormat::AutoSi, true),
        }),
        O::UndoPoint => None,
    }
}

/// Compare two wire timestamps as instants.
pub fn ts_eq(a: &str, b: &str) -> bool {
    match (
        chrono::DateTime::parse_from_rfc3339(a),
        chrono::DateTime::parse_from_rfc3339(b),
    ) {
        (Ok(x), Ok(y)) => x == y,
        _ => false,
    }
}

/// Equality of synchronized operations up to timestamp formatting.
pub fn mop_eq(a: &MOp, b: &MOp) -> bool {
    match (a, b) {
        (
            MOp::Update {
                uuid: u1,
                prop: p1,
                value: v1,
                ts: t1,
            },
            MOp::Update {
                uuid: u2,
                prop: p2,
                value: v2,
                ts: t2,
            },
        ) => u1 == u2 && p1 == p2 && v1 == v2 && ts_eq(t1, t2),
        _ => a == b,
    }
}
