pub mod ops;
