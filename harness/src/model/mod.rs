pub mod ops;
pub mod seal;
