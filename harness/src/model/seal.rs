//! Independent implementation of the documented sealing scheme (docs/src/encryption.md),
//! composed from `ring` primitives: PBKDF2-HMAC-SHA256 x 600 000 -> 32-byte key,
//! ChaCha20-Poly1305, AAD = 0x01 || 16-byte version id, envelope = 0x01 || nonce(12) || ct+tag.

use ring::{aead, pbkdf2};
use std::num::NonZeroU32;
use uuid::Uuid;

pub const ITERATIONS: u32 = 600_000;

pub fn derive_key(salt: &[u8], secret: &[u8]) -> [u8; 32] {
    static MEMO: std::sync::OnceLock<std::sync::Mutex<std::collections::HashMap<(Vec<u8>, Vec<u8>), [u8; 32]>>> = std::sync::OnceLock::new();
    let m = MEMO.get_or_init(Default::default);
    if let Some(k) = m.lock().unwrap().get(&(salt.to_vec(), secret.to_vec())) {
        return *k;
    }
    let mut key = [0u8; 32];
    pbkdf2::derive(pbkdf2::PBKDF2_HMAC_SHA256, NonZeroU32::new(ITERATIONS).unwrap(), salt, secret, &mut key);
    m.lock().unwrap().insert((salt.to_vec(), secret.to_vec()), key);
    key
}

fn aad(version_id: Uuid) -> [u8; 17] {
    let mut a = [0u8; 17];
    a[0] = 1;
    a[1..].copy_from_slice(version_id.as_bytes());
    a
}

/// Open a sealed value per the documentation. Returns the plaintext or a reason.
pub fn open(key: &[u8; 32], version_id: Uuid, sealed: &[u8]) -> Result<Vec<u8>, String> {
    if sealed.len() < 1 + 12 + 16 {
        return Err("too short for format byte + nonce + tag".into());
    }
    if sealed[0] != 1 {
        return Err(format!("format byte is {} (documented: 1)", sealed[0]));
    }
    let nonce = aead::Nonce::try_assume_unique_for_key(&sealed[1..13]).map_err(|_| "bad nonce")?;
    let k = aead::LessSafeKey::new(aead::UnboundKey::new(&aead::CHACHA20_POLY1305, key).map_err(|_| "bad key")?);
    let mut buf = sealed[13..].to_vec();
    let pt = k
        .open_in_place(nonce, aead::Aad::from(aad(version_id)), &mut buf)
        .map_err(|_| "authentication failed (key, nonce, AAD or ciphertext do not match the documented scheme)".to_string())?;
    Ok(pt.to_vec())
}

/// Seal a value per the documentation with an explicit nonce (for building foreign data).
pub fn seal(key: &[u8; 32], version_id: Uuid, nonce: [u8; 12], plaintext: &[u8]) -> Vec<u8> {
    let k = aead::LessSafeKey::new(aead::UnboundKey::new(&aead::CHACHA20_POLY1305, key).unwrap());
    let mut buf = plaintext.to_vec();
    k.seal_in_place_append_tag(aead::Nonce::assume_unique_for_key(nonce), aead::Aad::from(aad(version_id)), &mut buf).unwrap();
    let mut out = vec![1u8];
    out.extend_from_slice(&nonce);
    out.extend_from_slice(&buf);
    out
}

pub fn nonce_of(sealed: &[u8]) -> Option<[u8; 12]> {
    sealed.get(1..13).map(|s| s.try_into().unwrap())
}

/// Self-check against published test vectors: RFC 8439 section 2.8.2 (AEAD) and RFC 7914
/// section 11 (PBKDF2-HMAC-SHA256, c = 1 and c = 80000).
pub fn self_check() -> Result<(), String> {
    // RFC 8439 2.8.2
    let key: [u8; 32] = core::array::from_fn(|i| 0x80 + i as u8);
    let nonce = [0x07, 0, 0, 0, 0x40, 0x41, 0x42, 0x43, 0x44, 0x45, 0x46, 0x47];
    let aad_ = [0x50, 0x51, 0x52, 0x53, 0xc0, 0xc1, 0xc2, 0xc3, 0xc4, 0xc5, 0xc6, 0xc7];
    let pt = b"Ladies and Gentlemen of the class of '99: If I could offer you only one tip for the future, sunscreen would be it.";
    let k = aead::LessSafeKey::new(aead::UnboundKey::new(&aead::CHACHA20_POLY1305, &key).unwrap());
    let mut buf = pt.to_vec();
    k.seal_in_place_append_tag(aead::Nonce::assume_unique_for_key(nonce), aead::Aad::from(aad_), &mut buf).unwrap();
    let tag = &buf[buf.len() - 16..];
    let want_tag = [0x1a, 0xe1, 0x0b, 0x59, 0x4f, 0x09, 0xe2, 0x6a, 0x7e, 0x90, 0x2e, 0xcb, 0xd0, 0x60, 0x06, 0x91];
    if tag != want_tag || buf[..4] != [0xd3, 0x1a, 0x8d, 0x34] {
        return Err("ChaCha20-Poly1305 does not reproduce the RFC 8439 test vector".into());
    }
    // RFC 7914 section 11: PBKDF2-HMAC-SHA-256 (P="passwd", S="salt", c=1, dkLen=64) first 32 bytes
    let mut out = [0u8; 32];
    pbkdf2::derive(pbkdf2::PBKDF2_HMAC_SHA256, NonZeroU32::new(1).unwrap(), b"salt", b"passwd", &mut out);
    let want = [
        0x55, 0xac, 0x04, 0x6e, 0x56, 0xe3, 0x08, 0x9f, 0xec, 0x16, 0x91, 0xc2, 0x25, 0x44, 0xb6, 0x05, 0xf9, 0x41, 0x85, 0x21, 0x6d, 0xde, 0x04, 0x65, 0xe6, 0x8b, 0x9d, 0x57, 0xc2, 0x0d, 0xac,
        0xbc,
    ];
    if out != want {
        return Err("PBKDF2-HMAC-SHA256 does not reproduce the RFC 7914 test vector".into());
    }
    Ok(())
}
