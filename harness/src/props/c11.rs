//! C11 – a failure inside a server's add-version leaves the backend usable
//! (E-FAULT: every internal step of add_version / add_snapshot x fault kinds x backends, then
//! continued syncs by the interrupted and by another replica).

use crate::model::ops::{self, Tasks};
use crate::util::{Opts, Report, Tier, Violation};
use crate::world::backends::{Backend, BackendKind};
use crate::world::proxy::Ctl;
use crate::world::replicas::{observe, tasks_str, tid, with_replica, Mem};
use async_trait::async_trait;
use serde_json::json;
use std::cell::{Cell, RefCell};
use std::sync::atomic::{AtomicUsize, Ordering};
use std::sync::Arc;
use taskchampion::server::verif::{self, Decision, FailAction, Gate, Request};
use taskchampion::server::{AddVersionResult, GetVersionResult, HistorySegment, Server, Snapshot, SnapshotUrgency, VersionId};
use taskchampion::Operation;
use uuid::Uuid;

#[derive(Clone, Copy, Debug, PartialEq, Eq, Hash, serde::Serialize, serde::Deserialize)]
pub enum Fault {
    /// the step fails with an error before it takes effect
    ErrorBefore,
    /// (object store) the request takes effect, then reports an error
    ErrorAfter,
    /// the process stops at this step (before it)
    Stop,
}

#[derive(Clone, Copy, Debug, PartialEq, Eq, Hash, serde::Serialize, serde::Deserialize)]
pub enum Target {
    /// the fault hits inside the add_version of replica A's sync
    SyncAddVersion,
    /// the fault hits inside a direct add_snapshot call for the latest version
    AddSnapshot,
}

#[derive(Clone, Debug, serde::Serialize, serde::Deserialize)]
pub struct Scen {
    pub backend: BackendKind,
    pub target: Target,
    pub point: usize,
    pub fault: Fault,
    /// after an error (not a stop) keep using the same server handle
    pub reuse_handle: bool,
    /// short continuation (quick tier, git with a remote): the interrupted replica retries, the
    /// other replica commits and syncs, the first syncs again, the two are compared; the third
    /// replica, the chain replay and the protocol probe are left to the thorough tier
    #[serde(default)]
    pub short: bool,
    /// the other replica's next sync (with its own change) reaches the backend before the
    /// interrupted replica comes back (before its handle is re-opened after a stop)
    #[serde(default)]
    pub other_first: bool,
}

thread_local! {
    static IN_TARGET: Cell<bool> = const { Cell::new(false) };
    static POINTS: RefCell<Vec<String>> = const { RefCell::new(vec![]) };
}

/// Marks the window in which faults are injected: inside add_version / add_snapshot.
struct Probe {
    inner: Box<dyn Server>,
    add_version: bool,
    add_snapshot: bool,
}

#[async_trait(?Send)]
impl Server for Probe {
    async fn add_version(&mut self, p: VersionId, h: HistorySegment) -> Result<(AddVersionResult, SnapshotUrgency), taskchampion::Error> {
        IN_TARGET.with(|c| c.set(self.add_version));
        let r = self.inner.add_version(p, h).await;
        IN_TARGET.with(|c| c.set(false));
        r
    }
    async fn get_child_version(&mut self, p: VersionId) -> Result<GetVersionResult, taskchampion::Error> {
        self.inner.get_child_version(p).await
    }
    async fn add_snapshot(&mut self, v: VersionId, s: Snapshot) -> Result<(), taskchampion::Error> {
        IN_TARGET.with(|c| c.set(self.add_snapshot));
        let r = self.inner.add_snapshot(v, s).await;
        IN_TARGET.with(|c| c.set(false));
        r
    }
    async fn get_snapshot(&mut self) -> Result<Option<(VersionId, Snapshot)>, taskchampion::Error> {
        self.inner.get_snapshot().await
    }
}

/// Object-store gate: fault at the k-th request made inside the target call.
struct CountGate {
    seen: AtomicUsize,
    at: usize,
    fault: Option<Fault>,
}

#[async_trait]
impl Gate for CountGate {
    async fn before(&self, _client: usize, req: &Request) -> Decision {
        if !IN_TARGET.with(|c| c.get()) {
            return Decision::Proceed;
        }
        let k = self.seen.fetch_add(1, Ordering::SeqCst);
        POINTS.with(|p| p.borrow_mut().push(crate::world::cloud::req_label(req)));
        if k != self.at {
            return Decision::Proceed;
        }
        match self.fault {
            None => Decision::Proceed,
            Some(Fault::ErrorBefore) => Decision::FailBefore,
            Some(Fault::ErrorAfter) => Decision::FailAfter,
            Some(Fault::Stop) => {
                std::future::pending::<()>().await;
                Decision::Proceed
            }
        }
    }
}

fn install_failpoints(at: usize, fault: Option<Fault>) {
    let seen = Cell::new(0usize);
    verif::set_failpoint_handler(Some(Box::new(move |name: &str| {
        if !IN_TARGET.with(|c| c.get()) {
            return FailAction::Continue;
        }
        let k = seen.get();
        seen.set(k + 1);
        POINTS.with(|p| p.borrow_mut().push(name.to_string()));
        if k != at {
            return FailAction::Continue;
        }
        match fault {
            None => FailAction::Continue,
            Some(Fault::ErrorBefore) | Some(Fault::ErrorAfter) => FailAction::Error,
            Some(Fault::Stop) => FailAction::Stop,
        }
    })));
}

fn upd(t: u8, p: &str, v: &str, tasks: &Tasks) -> Operation {
    Operation::Update {
        uuid: tid(t),
        property: p.into(),
        old_value: tasks.get(&tid(t)).and_then(|m| m.get(p)).cloned(),
        value: Some(v.into()),
        timestamp: super::syncworld::ts(1),
    }
}

async fn commit(m: &mut Mem, ops_: Vec<Operation>) {
    with_replica(m, Ctl::new(), async |r| r.commit_operations(ops_).await).await.expect("local commit");
}

async fn sync(m: &mut Mem, server: &mut Box<dyn Server>) -> Result<(), String> {
    with_replica(m, Ctl::new(), async |r| r.sync(server, true).await.map_err(|e| format!("{e:#}"))).await
}

async fn tasks_of(m: &mut Mem) -> Tasks {
    observe(m).await.tasks
}

/// Walk the chain with a fresh handle and replay it with the model.
async fn chain_replay(b: &Backend) -> Result<(Tasks, usize), String> {
    let mut h = b.open(0).await;
    let mut cur = Uuid::nil();
    let mut t = Tasks::new();
    let mut n = 0;
    // a snapshot may stand for a prefix of the chain
    if let Some((v, snap)) = h.get_snapshot().await.map_err(|e| format!("get_snapshot failed after the fault: {e:#}"))? {
        if let Ok(st) = super::syncworld::decode_snapshot(&snap) {
            t = st;
            cur = v;
        }
    }
    for _ in 0..64 {
        match h.get_child_version(cur).await.map_err(|e| format!("get_child_version failed after the fault: {e:#}"))? {
            GetVersionResult::NoSuchVersion => break,
            GetVersionResult::Version { version_id, history_segment, .. } => {
                let o = ops::parse_version_strict(&history_segment).map_err(|e| format!("served version does not parse: {e}"))?;
                ops::apply_all(&mut t, &o);
                cur = version_id;
                n += 1;
            }
        }
    }
    Ok((t, n))
}

/// Returns the list of injection points seen (for a recording run) or the verdict of one scenario.
pub fn run_scenario(sc: &Scen, record_only: bool) -> Result<Vec<String>, String> {
    POINTS.with(|p| p.borrow_mut().clear());
    IN_TARGET.with(|c| c.set(false));
    let fault = if record_only { None } else { Some(sc.fault) };
    let gate: Arc<CountGate> = Arc::new(CountGate { seen: AtomicUsize::new(0), at: sc.point, fault });
    let is_cloud = sc.backend == BackendKind::Cloud;
    verif::set_version_id_counter(Some(1));
    let r: Result<(), String> = crate::util::block_on(async {
        let b = Backend::new(sc.backend, 0).await;
        let mut a = Mem::default();
        let mut bb = Mem::default();
        // setup: A creates T1 and syncs, B syncs; so a latest version exists
        commit(&mut a, vec![Operation::Create { uuid: tid(1) }, upd(1, "p", "base", &Tasks::new())]).await;
        let mut h = b.open(0).await;
        sync(&mut a, &mut h).await.map_err(|e| format!("setup: {e}"))?;
        drop(h);
        let mut h = b.open(1).await;
        sync(&mut bb, &mut h).await.map_err(|e| format!("setup: {e}"))?;
        drop(h);
        // A changes something; the faulted call
        let ta = tasks_of(&mut a).await;
        commit(&mut a, vec![upd(1, "p", "fromA", &ta), Operation::Create { uuid: tid(2) }]).await;
        let raw = b.open(0).await;
        let raw: Box<dyn Server> = if is_cloud {
            // the object-store client gets the counting gate
            let mut c = crate::world::cloud::client(b.store.as_ref().unwrap(), 0, None, 255).await;
            c.set_gate(Some(gate.clone()));
            drop(raw);
            Box::new(c)
        } else {
            raw
        };
        let mut probe: Box<dyn Server> = Box::new(Probe { inner: raw, add_version: sc.target == Target::SyncAddVersion, add_snapshot: sc.target == Target::AddSnapshot });
        if !is_cloud {
            install_failpoints(sc.point, fault);
        }
        // what a snapshot taken after A's sync contains: A's tasks, in the documented encoding
        let snapshot_bytes: Vec<u8> = {
            use std::io::Write;
            let t = tasks_of(&mut a).await;
            let j: serde_json::Map<String, serde_json::Value> = t.iter().map(|(u, p)| (u.to_string(), serde_json::json!(p))).collect();
            let mut e = flate2::write::ZlibEncoder::new(Vec::new(), flate2::Compression::default());
            e.write_all(serde_json::to_string(&j).unwrap().as_bytes()).unwrap();
            e.finish().unwrap()
        };
        let mut stopped = false;
        {
            let fut = async {
                match sc.target {
                    Target::SyncAddVersion => sync(&mut a, &mut probe).await,
                    Target::AddSnapshot => {
                        sync(&mut a, &mut probe).await?;
                        // the latest version, through the same handle
                        let mut cur = Uuid::nil();
                        while let GetVersionResult::Version { version_id, .. } = probe.get_child_version(cur).await.map_err(|e| format!("{e:#}"))? {
                            cur = version_id;
                        }
                        // a real snapshot of the state at that version (A has just synced to it)
                        probe.add_snapshot(cur, snapshot_bytes.clone()).await.map_err(|e| format!("{e:#}"))
                    }
                }
            };
            let mut fut = Box::pin(fut);
            // a stop shows as a panic (failpoint) or as a future that never completes (object store)
            let res = std::panic::catch_unwind(std::panic::AssertUnwindSafe(|| {
                if is_cloud {
                    match crate::util::poll_once(fut.as_mut()) {
                        std::task::Poll::Ready(r) => Some(r),
                        std::task::Poll::Pending => None,
                    }
                } else {
                    // not inside this runtime's block_on twice: drive it by polling (git and
                    // sqlite calls are synchronous)
                    match crate::util::poll_once(fut.as_mut()) {
                        std::task::Poll::Ready(r) => Some(r),
                        std::task::Poll::Pending => None,
                    }
                }
            }));
            match res {
                Ok(Some(_result)) => {}
                Ok(None) => stopped = true,
                Err(p) => {
                    if p.downcast_ref::<verif::FailpointStop>().is_some() {
                        stopped = true;
                    } else {
                        std::panic::resume_unwind(p);
                    }
                }
            }
        }
        IN_TARGET.with(|c| c.set(false));
        verif::set_failpoint_handler(None);
        if record_only {
            return Ok(());
        }
        if stopped && sc.fault != Fault::Stop {
            return Err("harness: the call stopped although no stop was injected".into());
        }
        // continue: restart (new handle) or the same handle
        let keep = !stopped && sc.reuse_handle;
        // a stopped process is gone (its handle with it) before anybody else moves
        let mut probe = if keep { Some(probe) } else { None };
        let mut hb_early: Option<Box<dyn Server>> = None;
        if sc.other_first {
            // the other replica, with its own change, gets to the backend first
            let tb = tasks_of(&mut bb).await;
            commit(&mut bb, vec![upd(1, "q", "fromB", &tb), Operation::Create { uuid: tid(3) }]).await;
            let mut hb = b.open(1).await;
            sync(&mut bb, &mut hb).await.map_err(|e| format!("other-replica-stuck: another replica cannot sync after the fault: {e}"))?;
            hb_early = Some(hb);
        }
        let mut ha: Box<dyn Server> = match probe.take() {
            Some(p) => p,
            None => b.open(0).await,
        };
        sync(&mut a, &mut ha).await.map_err(|e| format!("interrupted-replica-stuck: the interrupted replica cannot sync again: {e}"))?;
        let mut hb = match hb_early {
            Some(mut hb) => {
                sync(&mut bb, &mut hb).await.map_err(|e| format!("other-replica-stuck: second sync of the other replica failed: {e}"))?;
                hb
            }
            None => {
                // another replica with its own change
                let tb = tasks_of(&mut bb).await;
                commit(&mut bb, vec![upd(1, "q", "fromB", &tb), Operation::Create { uuid: tid(3) }]).await;
                let mut hb = b.open(1).await;
                sync(&mut bb, &mut hb).await.map_err(|e| format!("other-replica-stuck: another replica cannot sync after the fault: {e}"))?;
                hb
            }
        };
        sync(&mut a, &mut ha).await.map_err(|e| format!("interrupted-replica-stuck: second sync of the interrupted replica failed: {e}"))?;
        if sc.short {
            drop((ha, hb));
            let (ta, tb) = (tasks_of(&mut a).await, tasks_of(&mut bb).await);
            if ta != tb {
                return Err(format!("divergence: after the fault and further syncs A holds {}, B holds {}", tasks_str(&ta), tasks_str(&tb)));
            }
            let want_a = ta.get(&tid(1)).and_then(|m| m.get("p")).map(|s| s.as_str()) == Some("fromA") && ta.contains_key(&tid(2));
            let want_b = ta.get(&tid(1)).and_then(|m| m.get("q")).map(|s| s.as_str()) == Some("fromB") && ta.contains_key(&tid(3));
            if !want_a || !want_b {
                return Err(format!("lost-change: after the fault and further syncs the replicas hold {} (changes of A and B must both be there)", tasks_str(&ta)));
            }
            return Ok(());
        }
        sync(&mut bb, &mut hb).await.map_err(|e| format!("other-replica-stuck: second sync of the other replica failed: {e}"))?;
        // a third, new replica
        let mut c = Mem::default();
        let mut hc = b.open(1).await;
        sync(&mut c, &mut hc).await.map_err(|e| format!("fresh-replica-stuck: a new replica cannot sync after the fault: {e}"))?;
        drop((ha, hb, hc));
        let (ta, tb, tc) = (tasks_of(&mut a).await, tasks_of(&mut bb).await, tasks_of(&mut c).await);
        if ta != tb || ta != tc {
            return Err(format!("divergence: after the fault and further syncs A holds {}, B holds {}, a new replica holds {}", tasks_str(&ta), tasks_str(&tb), tasks_str(&tc)));
        }
        let want_a = ta.get(&tid(1)).and_then(|m| m.get("p")).map(|s| s.as_str()) == Some("fromA") && ta.contains_key(&tid(2));
        let want_b = ta.get(&tid(1)).and_then(|m| m.get("q")).map(|s| s.as_str()) == Some("fromB") && ta.contains_key(&tid(3));
        if !want_a || !want_b {
            return Err(format!("lost-change: after the fault and further syncs the replicas hold {} (changes of A and B must both be there)", tasks_str(&ta)));
        }
        let (replay, n) = chain_replay(&b).await.map_err(|e| format!("chain-unreadable: {e}"))?;
        if replay != ta {
            return Err(format!("chain-replay: the chain served after the fault ({n} versions) replays to {} but the replicas hold {}", tasks_str(&replay), tasks_str(&ta)));
        }
        // short protocol probe on a fresh handle
        let mut hp = b.open(0).await;
        let mut cur = Uuid::nil();
        let mut ids = vec![];
        if let Some((v, _)) = hp.get_snapshot().await.map_err(|e| format!("protocol-probe: {e:#}"))? {
            cur = v;
        }
        while let GetVersionResult::Version { version_id, .. } = hp.get_child_version(cur).await.map_err(|e| format!("protocol-probe: {e:#}"))? {
            ids.push(version_id);
            cur = version_id;
            if ids.len() > 64 {
                return Err("protocol-probe: the chain does not end".into());
            }
        }
        if ids.len() >= 2 {
            match hp.add_version(ids[0], b"{\"operations\":[]}".to_vec()).await.map_err(|e| format!("protocol-probe: {e:#}"))?.0 {
                AddVersionResult::ExpectedParentVersion(e) if e == cur => {}
                other => return Err(format!("protocol-probe: a version on a stale parent was answered {other:?}, expected a conflict naming {cur}")),
            }
        }
        Ok(())
    });
    verif::set_failpoint_handler(None);
    IN_TARGET.with(|c| c.set(false));
    let pts = POINTS.with(|p| p.borrow().clone());
    r.map(|_| pts)
}

fn probe_as_cloud(_p: &mut Box<dyn Server>) -> Option<&mut verif::VerifCloudServer> {
    // the gate stays installed but only acts inside the (finished) target window: nothing to do
    None
}

fn scenarios_for(backend: BackendKind, target: Target) -> Result<Vec<Scen>, String> {
    let rec = Scen { backend, target, point: usize::MAX, fault: Fault::Stop, reuse_handle: false, short: false, other_first: false };
    let points = run_scenario(&rec, true).map_err(|e| format!("recording run failed for {backend:?}/{target:?}: {e}"))?;
    let mut v = vec![];
    for k in 0..points.len() {
        let faults: Vec<Fault> = if backend == BackendKind::Cloud { vec![Fault::ErrorBefore, Fault::ErrorAfter, Fault::Stop] } else { vec![Fault::ErrorBefore, Fault::Stop] };
        for f in faults {
            v.push(Scen { backend, target, point: k, fault: f, reuse_handle: false, short: false, other_first: false });
            if f != Fault::Stop {
                v.push(Scen { backend, target, point: k, fault: f, reuse_handle: true, short: false, other_first: false });
            } else {
                // a stopped process stays away while the other replica syncs
                v.push(Scen { backend, target, point: k, fault: f, reuse_handle: false, short: false, other_first: true });
            }
        }
    }
    Ok(v)
}

pub fn run(opts: &Opts) -> i32 {
    let rep = Report::new("C11", "fault_enumeration", opts);
    rep.set("exhaustive", true);
    rep.set("rule", "history: replica A creates a task and syncs, replica B syncs, A changes it and syncs with ONE fault inside the backend's add_version (or inside a direct add_snapshot): for every internal step (local: named failpoints between its SQL statements; object store: every get/put/del/list/compare-and-swap request; git: before and after every git command and after each file write) x {error before the step, (object store) effect then error, process stop} x {restart with a new handle, keep the handle after an error} x {the interrupted replica comes back first, the other replica syncs first (after a stop)}; then A syncs again, B commits its own change and syncs, both sync again, a new replica syncs; plus a child process running the whole sync of a SQLite replica against the on-disk local server in three situations (push only, pull then push, very first version), SIGKILLed at the entry of its write syscalls (server and replica database alike), after which the chain is walked, the replica invariant checked and everybody continues; oracle: all those syncs succeed, all replicas identical and containing both changes, the chain served to a fresh handle replays to the same state, and a stale-parent probe is rejected naming the latest; distinct_nontrivial = scenarios whose fault hit after the backend had made its first write");
    rep.assume("every sync opens its own server handle (as every CLI invocation does); a 'stop' at a failpoint unwinds the stack (sqlite/rusqlite drop handlers run, which matches what sqlite recovery does on restart)");
    let q = opts.tier == Tier::Quick;
    // process kill (not an unwinding stop): a child runs a whole sync of a SQLite replica against
    // the on-disk local server and is SIGKILLed at its write syscalls - the server database's as
    // well as the replica's
    rep.assume("sync-kill part: process-kill semantics (the kernel keeps written pages), kill instants = entries of the write-class syscalls of the child");
    for sit in [super::synckill::Situation::PushOnly, super::synckill::Situation::PullThenPush, super::synckill::Situation::FirstVersion] {
        super::synckill::kill_sweep(&rep, "C11", sit, if q { 10 } else { 10_000 });
    }
    std::panic::set_hook(Box::new(|_| {}));
    let mut plan: Vec<(BackendKind, Target)> = vec![
        (BackendKind::Local, Target::SyncAddVersion),
        (BackendKind::Cloud, Target::SyncAddVersion),
        (BackendKind::Cloud, Target::AddSnapshot),
        (BackendKind::GitLocal, Target::SyncAddVersion),
    ];
    if q {
        // git with a shared remote, quick tier: only the steps from the local commit to the push -
        // the window in which the clone and the remote can come to disagree
        plan.push((BackendKind::GitRemote, Target::SyncAddVersion));
    }
    if !q {
        plan.push((BackendKind::GitLocal, Target::AddSnapshot));
        plan.push((BackendKind::GitRemote, Target::SyncAddVersion));
        plan.push((BackendKind::GitRemote, Target::AddSnapshot));
    }
    let only = std::env::var("TCMC_BACKEND").ok();
    for (backend, target) in plan {
        if only.as_ref().is_some_and(|o| format!("{backend:?}") != *o) {
            continue;
        }
        let scs = match scenarios_for(backend, target) {
            Ok(s) => s,
            Err(e) => {
                let _ = std::panic::take_hook();
                eprintln!("MACHINERY ERROR: {e}");
                return 2;
            }
        };
        let rec = Scen { backend, target, point: usize::MAX, fault: Fault::Stop, reuse_handle: false, short: false, other_first: false };
        let points = run_scenario(&rec, true).unwrap_or_default();
        let scs: Vec<Scen> = if q && backend == BackendKind::GitRemote {
            // every fault kind from the commit on; before it only a process stop with the files
            // written / staged (an error there is rolled back in the same way as without a remote)
            scs.into_iter()
                .filter(|sc| {
                    points.get(sc.point).is_some_and(|n| {
                        n.contains("after:commit") || n.contains("push") || (sc.fault == Fault::Stop && (n.contains("meta-written") || (n.contains("after:add") && n.ends_with("/meta"))))
                    })
                })
                .map(|mut sc| {
                    sc.short = true;
                    sc
                })
                .collect()
        } else {
            scs
        };
        let mut nontrivial = 0u64;
        let mut done = 0u64;
        for sc in &scs {
            if rep.over_budget() {
                rep.set("exhaustive", false);
                break;
            }
            done += 1;
            match run_scenario(sc, false) {
                Ok(_) => {}
                Err(e) => {
                    let class = e.split(':').next().unwrap_or("").to_string();
                    let pname = points.get(sc.point).cloned().unwrap_or_default();
                    rep.violation(Violation::new(
                        format!("{class}:{backend:?}:{target:?}:{}:{:?}{}", point_class(&pname), sc.fault, if sc.other_first { ":other-first" } else { "" }),
                        format!("{e} [fault {:?} at step {} ({pname}) of {target:?} on {backend:?}, reuse_handle={}, other_first={}]", sc.fault, sc.point, sc.reuse_handle, sc.other_first),
                        json!({"kind": "c11-scenario", "scenario": sc, "point_name": pname, "observed": e}),
                    ));
                }
            }
            if sc.point > 0 {
                nontrivial += 1;
            }
        }
        rep.add("evaluations", done);
        rep.add("distinct_nontrivial", nontrivial);
        rep.set(&format!("backend_{backend:?}_{target:?}"), json!({"injection_points": points, "scenarios": scs.len(), "executed": done}));
        println!("[C11] {backend:?}/{target:?}: {} injection points, {} scenarios, {done} executed ({:.1}s)", points.len(), scs.len(), rep.elapsed());
        rep.sample(json!({"backend": format!("{backend:?}"), "target": format!("{target:?}"), "injection_points": points}));
    }
    let _ = std::panic::take_hook();
    rep.finish()
}

/// Signature class of an injection point: the failpoint name without ids.
fn point_class(name: &str) -> String {
    name.split_whitespace().take(3).map(|w| if w.len() > 20 { "<id>" } else { w }).collect::<Vec<_>>().join("_")
}

pub fn replay(case: &serde_json::Value) -> Result<(), String> {
    let sc: Scen = serde_json::from_value(case["scenario"].clone()).map_err(|e| e.to_string())?;
    println!("{sc:?} (injection point: {})", case["point_name"]);
    std::panic::set_hook(Box::new(|_| {}));
    let r = run_scenario(&sc, false).map(|_| ());
    let _ = std::panic::take_hook();
    r
}
