//! C20 – expiration purges exactly the long-deleted tasks, everywhere
//! (exhaustive sweep over status x modification time; all sync orders with a concurrent edit).

use super::syncworld::*;
use crate::util::{Opts, Report, Tier, Violation};
use crate::world::proxy::Ctl;
use crate::world::replicas::{observe, tasks_str, with_replica};
use crate::world::store::{Kind, Store};
use serde_json::json;
use std::sync::Arc;
use taskchampion::Operation;
use uuid::Uuid;

const DAY: i64 = 86_400;

fn statuses() -> Vec<Option<&'static str>> {
    vec![Some("deleted"), Some("pending"), Some("completed"), Some("recurring"), Some("bogus"), Some("Deleted"), Some(""), None]
}

/// (label, stored value, is it a readable time more than 180 days in the past?)
fn modifieds(now: i64) -> Vec<(String, Option<String>, bool)> {
    let s = |l: &str, v: String, old: bool| (l.to_string(), Some(v), old);
    vec![
        ("absent".to_string(), None, false),
        s("empty", "".into(), false),
        s("non-numeric", "yesterday".into(), false),
        s("float", "1e5".into(), false),
        s("leading-space", " 5".into(), false),
        s("now-180d-2s", (now - 180 * DAY - 2).to_string(), true),
        s("now-180d-1h", (now - 180 * DAY - 3600).to_string(), true),
        s("now-180d+60s", (now - 180 * DAY + 60).to_string(), false),
        s("now-179d", (now - 179 * DAY).to_string(), false),
        s("now", now.to_string(), false),
        s("future", (now + 400 * DAY).to_string(), false),
        s("zero", "0".into(), true),
        s("minus-one", "-1".into(), true),
        s("year-1900", "-2208988800".into(), true),
        s("i64-max", i64::MAX.to_string(), false),
        s("i64-min", i64::MIN.to_string(), false),
        s("2^63", "9223372036854775808".into(), false),
        s("out-of-range-positive", "10000000000000".into(), false),
        s("out-of-range-negative", "-10000000000000".into(), false),
        s("max-representable+1", "8210266876800".into(), false),
    ]
}

fn uid(i: usize) -> Uuid {
    Uuid::from_u128(0xE000_0000_0000_0000_0000_0000_0000_0000u128 + i as u128)
}

struct Case {
    uuid: Uuid,
    status: Option<&'static str>,
    mlabel: String,
    modified: Option<String>,
    expect_purged: bool,
}

fn cases(now: i64) -> Vec<Case> {
    let mut v = vec![];
    let mut i = 0;
    for st in statuses() {
        for (l, m, old) in modifieds(now) {
            i += 1;
            v.push(Case {
                uuid: uid(i),
                status: st,
                mlabel: l,
                modified: m,
                expect_purged: st == Some("deleted") && old,
            });
        }
    }
    v
}

fn create_ops(c: &Case) -> Vec<Operation> {
    let mut ops_ = vec![Operation::Create { uuid: c.uuid }];
    let mut upd = |p: &str, v: String| {
        ops_.push(Operation::Update {
            uuid: c.uuid,
            property: p.into(),
            old_value: None,
            value: Some(v),
            timestamp: ts(1),
        })
    };
    upd("description", format!("{:?}/{}", c.status, c.mlabel));
    if let Some(s) = c.status {
        upd("status", s.to_string());
    }
    if let Some(m) = &c.modified {
        upd("modified", m.clone());
    }
    ops_
}

fn sweep(rep: &Report, kind: Kind, together: bool) {
    let now = chrono::Utc::now().timestamp();
    let cs = cases(now);
    let groups: Vec<Vec<&Case>> = if together { vec![cs.iter().collect()] } else { cs.iter().map(|c| vec![c]).collect() };
    for g in groups {
        let mut store = Store::fresh(kind);
        let ops_: Vec<Operation> = g.iter().flat_map(|c| create_ops(c)).collect();
        let r = crate::util::block_on(with_replica(&mut store, Ctl::new(), async |r| {
            r.commit_operations(ops_).await.map_err(|e| format!("commit-failed: {e:#}"))?;
            r.expire_tasks().await.map_err(|e| format!("expire-failed: {e:#}"))
        }));
        let after = crate::util::block_on(observe(&mut store));
        rep.add("evaluations", g.len() as u64);
        if let Err(e) = r {
            rep.violation(Violation::new(format!("{}:{kind:?}", e.split(':').next().unwrap_or("")), e, json!({"kind": "c20-sweep"})));
            continue;
        }
        for c in &g {
            let present = after.tasks.contains_key(&c.uuid);
            if c.expect_purged {
                rep.add("expected_purges", 1);
            }
            if present == c.expect_purged {
                let what = if present {
                    format!("not-purged: task with status {:?} and modified {} ({:?}) is deleted and older than 180 days but was kept", c.status, c.mlabel, c.modified)
                } else {
                    format!("wrongly-purged: task with status {:?} and modified {} ({:?}) was purged by expire_tasks", c.status, c.mlabel, c.modified)
                };
                rep.violation(Violation::new(
                    format!("{}:{}:{}", what.split(':').next().unwrap(), c.status.unwrap_or("absent"), c.mlabel),
                    what,
                    json!({"kind": "c20-sweep", "storage": kind, "status": c.status, "modified": c.modified, "together": together}),
                ));
            }
            // the purge is recorded as an ordinary Delete operation
            let deleted_op = after.unsynced.iter().any(|o| matches!(o, Operation::Delete { uuid, .. } if *uuid == c.uuid));
            if c.expect_purged && !present && !deleted_op {
                rep.violation(Violation::new(
                    "purge-not-recorded",
                    format!("purge-not-recorded: the purge of the task with modified {} left no Delete operation to synchronize", c.mlabel),
                    json!({"kind": "c20-sweep", "storage": kind, "modified": c.modified}),
                ));
            }
            if !c.expect_purged && deleted_op {
                rep.violation(Violation::new(
                    "spurious-delete-op",
                    format!("spurious-delete-op: a Delete operation was recorded for a task that must be kept (status {:?}, modified {})", c.status, c.mlabel),
                    json!({"kind": "c20-sweep", "storage": kind, "modified": c.modified}),
                ));
            }
        }
    }
}

/// For every expirable task: a concurrent edit on a second (and third) replica, all sync orders.
fn sync_orders(rep: &Report) {
    let now = chrono::Utc::now().timestamp();
    let olds: Vec<String> = vec![(now - 180 * DAY - 2).to_string(), "0".into(), "-1".into()];
    let edits: Vec<(&str, Option<String>)> = vec![
        ("description", Some("edited elsewhere".into())),
        ("status", Some("pending".into())),
        ("modified", Some(now.to_string())),
        ("status", None),
        // the same kind of edit made through Replica::create_task on the existing task (a
        // get-or-create call) and the Task API
        ("via-create_task", None),
    ];
    let mut n = 0u64;
    let mut overlapping = 0u64;
    let mut distinct = std::collections::BTreeSet::new();
    for r in [2usize, 3] {
        for old in &olds {
            for (p, v) in &edits {
                for order in perms(r) {
                    n += 1;
                    distinct.insert((r, old.clone(), p.to_string(), v.clone()));
                    let mut w = World::new(r);
                    let u = uid(1);
                    let mk = vec![
                        Operation::Create { uuid: u },
                        Operation::Update { uuid: u, property: "status".into(), old_value: None, value: Some("deleted".into()), timestamp: ts(0) },
                        Operation::Update { uuid: u, property: "modified".into(), old_value: None, value: Some(old.clone()), timestamp: ts(0) },
                        Operation::Create { uuid: uid(2) },
                        Operation::Update { uuid: uid(2), property: "status".into(), old_value: None, value: Some("pending".into()), timestamp: ts(0) },
                    ];
                    crate::util::block_on(with_replica(&mut w.reps[0], Ctl::new(), async |rp| rp.commit_operations(mk).await)).unwrap();
                    w.obs[0] = Arc::new(obs_of(&mut w.reps[0]));
                    let (_, mut w) = quiesce(&w).expect("setup quiesces");
                    // replica 0 expires; the others edit the task concurrently
                    crate::util::block_on(with_replica(&mut w.reps[0], Ctl::new(), async |rp| rp.expire_tasks().await)).unwrap();
                    w.obs[0] = Arc::new(obs_of(&mut w.reps[0]));
                    for other in 1..r {
                        let a = Act::Update { r: other, t: 0, p: p.to_string(), v: v.clone(), ts: 5 };
                        // Act uses tid(); build the operation directly for our uuid
                        let _ = a;
                        if *p == "via-create_task" {
                            crate::util::block_on(with_replica(&mut w.reps[other], Ctl::new(), async |rp| {
                                let mut ops_ = vec![];
                                let mut t = rp.create_task(u, &mut ops_).await.unwrap();
                                t.set_description("edited elsewhere".into(), &mut ops_).unwrap();
                                rp.commit_operations(ops_).await
                            }))
                            .unwrap();
                            w.obs[other] = Arc::new(obs_of(&mut w.reps[other]));
                            continue;
                        }
                        let oldv = w.obs[other].tasks.get(&u).and_then(|m| m.get(*p)).cloned();
                        let op = Operation::Update { uuid: u, property: p.to_string(), old_value: oldv, value: v.clone(), timestamp: ts(5) };
                        crate::util::block_on(with_replica(&mut w.reps[other], Ctl::new(), async |rp| rp.commit_operations(vec![op]).await)).unwrap();
                        w.obs[other] = Arc::new(obs_of(&mut w.reps[other]));
                    }
                    // the same situation with the syncs overlapping in time: every interleaving of the
                    // server requests of all replicas syncing at once (once per situation)
                    if order == perms(r)[0] {
                        let sc = super::c02::Race { world: w.clone(), racers: (0..r).collect(), urg: Urg::None, snapshots_only: false, must_be_absent: vec![u], must_be_present: vec![uid(2)], expect_tasks: None };
                        let cfg = crate::explore::sched::ExploreCfg { bound: if r >= 3 { 2 } else { usize::MAX }, max_schedules: 200_000, deadline: None, seen: Some(Default::default()) };
                        let (st, fails) = crate::explore::sched::explore(&sc, &cfg);
                        overlapping += st.schedules;
                        for f in fails.into_iter().take(1) {
                            rep.violation(Violation::new(
                                format!("{}:overlapping-syncs", f.what.split(':').next().unwrap_or("")),
                                format!("{} [replicas {r}, modified {old}, concurrent edit {p}={v:?}]", f.what),
                                json!({"kind": "c20-sync", "replicas": r, "modified": old, "edit": [p, v], "schedule": super::c02::trace_to_json(&f.trace)}),
                            ));
                        }
                    }
                    let mut res: Result<(), String> = Ok(());
                    for &i in &order {
                        let out = do_sync(&mut w, i, Urg::None, false, None, None);
                        if let Err(e) = out.result {
                            res = Err(format!("sync-failed: {e}"));
                        }
                    }
                    let res = res.and_then(|_| quiesce(&w).map(|(t, _)| t)).and_then(|t| {
                        if t.contains_key(&u) {
                            Err(format!("resurrected: the expired task is back after sync order {order:?} with concurrent edit {p}={v:?}: {}", tasks_str(&t)))
                        } else if !t.contains_key(&uid(2)) {
                            Err("collateral: the unrelated pending task vanished".to_string())
                        } else {
                            Ok(())
                        }
                    });
                    if let Err(e) = res {
                        rep.violation(Violation::new(
                            format!("{}:sync", e.split(':').next().unwrap_or("")),
                            e,
                            json!({"kind": "c20-sync", "replicas": r, "modified": old, "edit": [p, v], "order": order}),
                        ));
                    }
                }
            }
        }
    }
    rep.add("evaluations", n);
    rep.add("sync_order_scenarios", n);
    rep.add("overlapping_sync_schedules", overlapping);
    rep.add("traces_validated_against_impl", overlapping);
    rep.add("distinct_nontrivial", distinct.len() as u64);
}

fn perms(n: usize) -> Vec<Vec<usize>> {
    let mut out = vec![];
    fn rec(v: &mut Vec<usize>, k: usize, out: &mut Vec<Vec<usize>>) {
        if k == v.len() {
            out.push(v.clone());
            return;
        }
        for i in k..v.len() {
            v.swap(k, i);
            rec(v, k + 1, out);
            v.swap(k, i);
        }
    }
    rec(&mut (0..n).collect(), 0, &mut out);
    out
}

pub fn run(opts: &Opts) -> i32 {
    let rep = Report::new("C20", "exploration", opts);
    rep.set("exhaustive", true);
    rep.set("rule", "every task over status in {deleted, pending, completed, recurring, unknown, wrong case, empty, absent} x modified in {absent, empty, non-numeric, float, leading space, boundary -2s/-1h/+60s, 179d, now, future, 0, -1, 1900, '+5', i64 extremes, 2^63, out of range +/-, max+1}, stored by real operations, each alone and all together, on both storages, then Replica::expire_tasks; then for each expirable task a concurrent edit (description / re-open / touch modified / remove status) on 1-2 other replicas and EVERY sync order; distinct_nontrivial = distinct (replica count, old time, concurrent edit) combinations + the expected purges are counted separately");
    rep.assume("wall clock: boundary values are placed >= 2 s / 60 s away from the 180-day threshold");
    for kind in [Kind::Mem, Kind::Sqlite] {
        sweep(&rep, kind, true);
        if kind == Kind::Mem || opts.tier == Tier::Thorough {
            sweep(&rep, kind, false);
        }
    }
    sync_orders(&rep);
    let now = chrono::Utc::now().timestamp();
    let sample: Vec<_> = cases(now).iter().filter(|c| c.status == Some("deleted")).map(|c| json!({"status": c.status, "modified": c.modified, "expect_purged": c.expect_purged})).collect();
    rep.sample(json!(sample));
    rep.finish()
}
