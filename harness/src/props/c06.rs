//! C06 – the SQLite replica store is crash-atomic and durable
//! (E-FAULT: abandon at every storage call; E-KILL: SIGKILL at every write-class syscall of a
//! child process, via strace fault injection).

use crate::util::{Opts, Report, Tier, Violation};
use crate::world::mserver::{ChainState, MServer};
use crate::world::proxy::{Ctl, Proxy, StorageFault};
use crate::world::replicas::{observe, Obs};
use crate::world::store::{copy_dir, fresh_dir};
use serde_json::json;
use std::path::{Path, PathBuf};
use std::sync::atomic::Ordering;
use std::sync::{Arc, Mutex};
use taskchampion::storage::AccessMode;
use taskchampion::{Operation, Replica, SqliteStorage, TaskData};
use uuid::Uuid;

fn t(n: u8) -> Uuid {
    Uuid::from_u128(0x06_0000 + n as u128)
}

#[derive(Clone, Copy, Debug, PartialEq, Eq, Hash, serde::Serialize, serde::Deserialize)]
pub enum Action {
    /// commit: create task 3 pending, modify task 1, delete task 2
    Commit,
    /// fetch the undo operations and reverse them
    Undo,
    Rebuild(bool),
    /// sync against a harness server that holds one version from another replica
    Sync,
}

#[derive(Clone, Copy, Debug, PartialEq, Eq, Hash, serde::Serialize, serde::Deserialize)]
pub enum Prior {
    /// two tasks, one commit with undo point pending
    Small,
    /// like `Small`, but the undo span holds 1200 further changes made in one commit (an import): an
    /// action that treats long operation lists specially must stay one transaction
    BigSpan,
    /// after a sync, with further local changes and a working set with a gap
    Synced,
}

fn server_with_remote_version() -> ChainState {
    // one version made by "another replica": creates task 9 and updates task 1 if it exists
    let seg = format!(
        "{{\"operations\":[{{\"Create\":{{\"uuid\":\"{}\"}}}},{{\"Update\":{{\"uuid\":\"{}\",\"property\":\"remote\",\"value\":\"yes\",\"timestamp\":\"2024-01-01T00:00:00Z\"}}}}]}}",
        t(9),
        t(9)
    );
    let mut c = ChainState::default();
    c.next_id = 1;
    c.versions.push(crate::world::mserver::Ver { id: crate::world::mserver::vid(1), parent: Uuid::nil(), h: crate::util::h64(&seg.as_bytes()), seg: Arc::new(seg.into_bytes()) });
    c
}

async fn open(dir: &Path) -> SqliteStorage {
    SqliteStorage::new(dir, AccessMode::ReadWrite, true).await.expect("open sqlite storage")
}

/// Build the prior state in `dir`.
async fn build_prior(dir: &Path, prior: Prior) {
    let mut r = Replica::new(open(dir).await);
    let mut ops_ = vec![];
    for n in [1u8, 2] {
        let mut td = TaskData::create(t(n), &mut ops_);
        td.update("status", Some("pending".into()), &mut ops_);
        td.update("description", Some(format!("task {n} \u{1F600}")), &mut ops_);
    }
    r.commit_operations(ops_).await.unwrap();
    if prior == Prior::Synced {
        let chain = Arc::new(Mutex::new(ChainState::default()));
        let mut s = MServer::new(chain, 0).boxed();
        r.sync(&mut s, false).await.unwrap();
        let mut ops_ = vec![];
        let mut td = TaskData::create(t(4), &mut ops_);
        td.update("status", Some("pending".into()), &mut ops_);
        r.commit_operations(ops_).await.unwrap();
        let mut ops_ = vec![];
        let mut td = r.get_task_data(t(1)).await.unwrap().unwrap();
        td.update("status", Some("completed".into()), &mut ops_);
        r.commit_operations(ops_).await.unwrap();
        r.rebuild_working_set(false).await.unwrap();
    }
    // an undo point with changes after it (so that Undo has something to do)
    let mut ops_ = vec![Operation::UndoPoint];
    let mut td = r.get_task_data(t(2)).await.unwrap().unwrap();
    td.update("description", Some("edited".into()), &mut ops_);
    if prior == Prior::BigSpan {
        for i in 0..400u32 {
            let mut td = TaskData::create(Uuid::from_u128(0x06B1_0000 + i as u128), &mut ops_);
            td.update("status", Some("pending".into()), &mut ops_);
            td.update("description", Some(format!("imported {i}")), &mut ops_);
        }
    }
    r.commit_operations(ops_).await.unwrap();
}

/// Perform the action on a replica; Ok(()) when the action returned success.
async fn perform<S: taskchampion::storage::Storage>(r: &mut Replica<S>, a: Action) -> Result<(), String> {
    match a {
        Action::Commit => {
            let mut ops_ = vec![];
            let mut td = TaskData::create(t(3), &mut ops_);
            td.update("status", Some("pending".into()), &mut ops_);
            if let Some(mut t1) = r.get_task_data(t(1)).await.map_err(|e| format!("{e:#}"))? {
                t1.update("description", Some("changed".into()), &mut ops_);
            }
            if let Some(mut t2) = r.get_task_data(t(2)).await.map_err(|e| format!("{e:#}"))? {
                t2.delete(&mut ops_);
            }
            r.commit_operations(ops_).await.map_err(|e| format!("{e:#}"))
        }
        Action::Undo => {
            let u = r.get_undo_operations().await.map_err(|e| format!("{e:#}"))?;
            let ok = r.commit_reversed_operations(u).await.map_err(|e| format!("{e:#}"))?;
            if ok {
                Ok(())
            } else {
                Err("undo refused".into())
            }
        }
        Action::Rebuild(renumber) => r.rebuild_working_set(renumber).await.map_err(|e| format!("{e:#}")),
        Action::Sync => {
            let chain = Arc::new(Mutex::new(server_with_remote_version()));
            let mut s = MServer::new(chain, 0).boxed();
            r.sync(&mut s, false).await.map_err(|e| format!("{e:#}"))
        }
    }
}

fn observe_dir(dir: &Path) -> Obs {
    crate::util::block_on(async {
        let mut st = SqliteStorage::new(dir, AccessMode::ReadWrite, false).await.expect("re-open after interruption");
        observe(&mut st).await
    })
}

/// Re-open read-only first, then read-write: a read-only handle must see the same durable state
/// (it is opened first because a read-write open may recover and checkpoint the write-ahead log).
fn observe_both(dir: &Path) -> (Obs, Option<String>) {
    let ro = crate::util::block_on(async {
        match SqliteStorage::new(dir, AccessMode::ReadOnly, false).await {
            Ok(mut st) => Ok(observe(&mut st).await),
            Err(e) => Err(format!("{e:#}")),
        }
    });
    let rw = observe_dir(dir);
    let mismatch = match ro {
        Err(e) => Some(format!("read-only-view: the store cannot be re-opened read-only after the interruption: {e}")),
        Ok(ro) if data(&ro) != data(&rw) || ro.ws != rw.ws => Some(format!(
            "read-only-view: re-opened read-only the store shows {} but re-opened read-write it shows {}",
            ro.canon(),
            rw.canon()
        )),
        Ok(_) => None,
    };
    (rw, mismatch)
}

/// The data part (tasks, base version, unsynchronized operations) and the working set.
fn data(o: &Obs) -> (String, Uuid, Vec<String>) {
    // timestamps of updates are wall-clock values of the run that made them: not compared;
    // hash-map fields are printed sorted
    let op = |x: &Operation| {
        let s = crate::world::replicas::op_str(x);
        match s.rfind('@') {
            Some(i) if s.starts_with("Update(") => format!("{})", &s[..i]),
            _ => s,
        }
    };
    (format!("{:?}", o.tasks), o.base, o.unsynced.iter().map(op).collect())
}

/// before/after acceptance: the data must be entirely before or entirely after; the working
/// set may be the old one with new data (the rebuild is its own transaction) but not vice versa.
fn classify(got: &Obs, before: &Obs, after: &Obs) -> Result<&'static str, String> {
    let (gd, bd, ad) = (data(got), data(before), data(after));
    if bd == ad && before.ws == after.ws && gd == bd && got.ws == before.ws {
        // the action changes nothing on this prior (a rebuild of a working set that is already in
        // order): before and after cannot be told apart, either is what the property asks for
        return Ok("same");
    }
    if gd == bd && got.ws == before.ws {
        return Ok("before");
    }
    if gd == ad && got.ws == after.ws {
        return Ok("after");
    }
    if gd == ad && got.ws == before.ws {
        return Ok("after-data-old-working-set");
    }
    Err(format!("neither the before-state nor the after-state: got {} | before {} | after {}", got.canon(), before.canon(), after.canon()))
}

struct Case {
    prior: Prior,
    action: Action,
    dir: PathBuf,
    before: Obs,
    after: Obs,
    calls: Vec<String>,
}

fn prepare(prior: Prior, action: Action) -> Case {
    let dir = fresh_dir("c06prior");
    crate::util::block_on(build_prior(&dir, prior));
    let before = observe_dir(&dir);
    // reference run on a copy, recording the storage calls
    let work = fresh_dir("c06ref");
    copy_dir(&dir, &work);
    let ctl = Ctl::new();
    ctl.start_recording();
    crate::util::block_on(async {
        let (proxy, _b) = Proxy::new(open(&work).await, ctl.clone());
        let mut r = Replica::new(proxy);
        perform(&mut r, action).await.expect("reference run of the action");
    });
    let calls = ctl.take_log();
    let after = observe_dir(&work);
    let _ = std::fs::remove_dir_all(&work);
    Case { prior, action, dir, before, after, calls }
}

/// Part 1: abandon at every storage call (error, or the future dropped = process stop).
fn abandon_sweep(rep: &Report, c: &Case, stride: usize) {
    // long call lists (the 1200-operation span): every transaction boundary with its neighbours,
    // the first and last calls, and every 97th call in between
    let long = c.calls.len() > 400;
    if long {
        rep.set("abandon_sweep_long_lists", format!("transaction boundaries +-1, first 3, last 3, every {stride}th call"));
    }
    for k in 0..c.calls.len() {
        if long {
            let near_boundary = (k.saturating_sub(1)..=(k + 1).min(c.calls.len() - 1)).any(|j| c.calls[j] == "txn" || c.calls[j] == "commit");
            if !(near_boundary || k < 3 || k + 3 >= c.calls.len() || k % stride == 0) {
                continue;
            }
        }
        if rep.over_budget() {
            rep.set("exhaustive", false);
            return;
        }
        for kind in [StorageFault::Error, StorageFault::Stop] {
            let work = fresh_dir("c06run");
            copy_dir(&c.dir, &work);
            let ctl = Ctl::new();
            ctl.arm(k, kind);
            let outcome: Option<Result<(), String>> = crate::util::block_on(async {
                let (proxy, _b) = Proxy::new(open(&work).await, ctl.clone());
                let mut r = Replica::new(proxy);
                let fut = perform(&mut r, c.action);
                let mut fut = Box::pin(fut);
                // drive until done or until the injected stop is reached, then drop everything
                loop {
                    match crate::util::poll_once(fut.as_mut()) {
                        std::task::Poll::Ready(x) => break Some(x),
                        std::task::Poll::Pending => {
                            if ctl.stopped.load(Ordering::SeqCst) {
                                break None;
                            }
                            tokio::task::yield_now().await;
                            std::thread::sleep(std::time::Duration::from_micros(50));
                        }
                    }
                }
            });
            rep.add("evaluations", 1);
            rep.add("abandon_runs", 1);
            let (got, ro_mismatch) = observe_both(&work);
            let _ = std::fs::remove_dir_all(&work);
            let verdict = classify(&got, &c.before, &c.after);
            let problem = match (&outcome, verdict) {
                _ if ro_mismatch.is_some() => ro_mismatch,
                (_, Err(e)) => Some(format!("torn-state: {e}")),
                (Some(Ok(())), Ok(s)) if s != "after" && s != "same" => Some(format!("not-durable: the action returned success but the re-opened store is in state '{s}'")),
                (Some(Err(_)), Ok("after")) | (None, Ok("after")) if c.calls[k] != "commit" && !later_txn(&c.calls, k) => {
                    Some("uncommitted-visible: the action was abandoned before its commit but its effects are visible".to_string())
                }
                _ => None,
            };
            if k > 0 {
                rep.add("distinct_nontrivial", 1);
            }
            if let Some(p) = problem {
                rep.violation(Violation::new(
                    format!("{}:{:?}:{:?}", p.split(':').next().unwrap_or(""), c.action, kind),
                    format!("{p} [{:?} on prior {:?}, {:?} at storage call {k} ({})]", c.action, c.prior, kind, c.calls[k]),
                    json!({"kind": "c06-abandon", "prior": c.prior, "action": c.action, "call": k, "fault": kind}),
                ));
            }
        }
    }
}

/// Is call k inside a transaction that follows the one whose commit makes the data "after"?
/// (sync and undo are followed by a separate working-set rebuild transaction)
fn later_txn(calls: &[String], k: usize) -> bool {
    calls[..k].iter().any(|c| c == "commit")
}

// ---------------------------------------------------------------- E-KILL

/// Child side: perform the action on `dir`, print ACK when it returned, then close.
pub fn worker(args: &[String]) -> i32 {
    let dir = PathBuf::from(&args[0]);
    let action: Action = serde_json::from_str(&args[1]).expect("action");
    let r = crate::util::block_on(async {
        let mut r = Replica::new(open(&dir).await);
        let res = perform(&mut r, action).await;
        if res.is_ok() {
            // acknowledged: from here on the after-state is mandatory
            use std::io::Write;
            let mut o = std::io::stdout();
            let _ = o.write_all(b"ACK\n");
            let _ = o.flush();
        }
        drop(r);
        res
    });
    if r.is_ok() {
        0
    } else {
        1
    }
}

const WRITE_CLASS: [&str; 8] = ["pwrite64", "write", "fsync", "fdatasync", "ftruncate", "unlink", "rename", "unlinkat"];

/// Run the child under strace; returns (stdout, trace lines).
fn run_child(dir: &Path, action: Action, inject: Option<(&str, usize)>) -> (String, Vec<String>) {
    let exe = std::env::current_exe().expect("current exe");
    let trace_file = dir.with_extension("trace");
    let mut cmd = std::process::Command::new("strace");
    cmd.arg("-f").arg("-qq").arg("-o").arg(&trace_file);
    cmd.arg("-e").arg(format!("trace={}", WRITE_CLASS.join(",")));
    if let Some((name, n)) = inject {
        cmd.arg("-e").arg(format!("inject={name}:signal=KILL:when={n}"));
    }
    cmd.arg(exe).arg("worker-c06").arg(dir).arg(serde_json::to_string(&action).unwrap());
    let out = cmd.output().expect("strace");
    let trace = std::fs::read_to_string(&trace_file).unwrap_or_default();
    let _ = std::fs::remove_file(&trace_file);
    (String::from_utf8_lossy(&out.stdout).to_string(), trace.lines().map(|s| s.to_string()).collect())
}

fn kill_sweep(rep: &Report, c: &Case, max_points: usize) {
    // uninjected trace: ordered (pid, syscall) of write-class calls on the database files
    let work = fresh_dir("c06kill");
    copy_dir(&c.dir, &work);
    let (out, trace) = run_child(&work, c.action, None);
    let _ = std::fs::remove_dir_all(&work);
    if !out.contains("ACK") {
        rep.violation(Violation::new("harness:kill-baseline", format!("harness: the uninjected child did not acknowledge {:?}", c.action), json!({})));
        return;
    }
    // per (pid, syscall name) ordinals; strace applies when=N per syscall name and per tracee
    let mut counts: std::collections::BTreeMap<(String, String), usize> = Default::default();
    let mut points: Vec<(String, usize, String)> = vec![];
    for l in &trace {
        let mut it = l.splitn(2, ' ');
        let pid = it.next().unwrap_or("").to_string();
        let rest = it.next().unwrap_or("").trim_start();
        let name = rest.split('(').next().unwrap_or("").to_string();
        if !WRITE_CLASS.contains(&name.as_str()) {
            continue;
        }
        let n = counts.entry((pid.clone(), name.clone())).or_insert(0);
        *n += 1;
        // skip the ACK write itself and writes to stdio
        if name == "write" && (rest.starts_with("write(1,") || rest.starts_with("write(2,")) {
            continue;
        }
        points.push((name, *n, rest.chars().take(60).collect()));
    }
    // distinct (name, ordinal) pairs: strace fires in whichever tracee reaches the ordinal first
    let mut uniq: Vec<(String, usize, String)> = vec![];
    for p in points {
        if !uniq.iter().any(|u| u.0 == p.0 && u.1 == p.1) {
            uniq.push(p);
        }
    }
    rep.set(&format!("kill_points_{:?}_{:?}", c.prior, c.action), json!(uniq.iter().map(|p| format!("{}#{} {}", p.0, p.1, p.2)).collect::<Vec<_>>()));
    let step = (uniq.len() / max_points.max(1)).max(1);
    if step > 1 {
        rep.set("exhaustive", false);
        rep.set("kill_sweep_subsampled_every", step as u64);
    }
    for (i, (name, n, what)) in uniq.iter().enumerate() {
        if i % step != 0 && i + 1 != uniq.len() {
            continue;
        }
        if rep.over_budget() {
            rep.set("exhaustive", false);
            return;
        }
        let work = fresh_dir("c06kill");
        copy_dir(&c.dir, &work);
        let (out, _) = run_child(&work, c.action, Some((name, *n)));
        let acked = out.contains("ACK");
        rep.add("evaluations", 1);
        rep.add("kill_runs", 1);
        rep.add("distinct_nontrivial", 1);
        let got = std::panic::catch_unwind(|| observe_both(&work));
        let _ = std::fs::remove_dir_all(&work);
        let problem = match got {
            Err(_) => Some("unopenable: the database cannot be re-opened after the kill".to_string()),
            Ok((_, Some(m))) => Some(m),
            Ok((got, None)) => match classify(&got, &c.before, &c.after) {
                Err(e) => Some(format!("torn-state: {e}")),
                Ok(s) if acked && s != "after" && s != "same" => Some(format!("not-durable: the child acknowledged the action, was killed afterwards, and the re-opened store is in state '{s}'")),
                Ok(_) => None,
            },
        };
        if let Some(p) = problem {
            rep.violation(Violation::new(
                format!("{}:{:?}:kill", p.split(':').next().unwrap_or(""), c.action),
                format!("{p} [{:?} on prior {:?}, SIGKILL at {name} #{n}: {what}]", c.action, c.prior),
                json!({"kind": "c06-kill", "prior": c.prior, "action": c.action, "syscall": name, "ordinal": n}),
            ));
        }
    }
}

pub fn run(opts: &Opts) -> i32 {
    let rep = Report::new("C06", "fault_enumeration", opts);
    rep.set("exhaustive", true);
    rep.set("rule", "actions {commit (create + modify + delete), undo, rebuild working set (both modes), sync against a server holding another replica's version} on two prior SQLite replicas, and undo (thorough: also sync) on a replica whose undo span holds 1200 operations (every transaction boundary with its neighbours and every 499th (thorough 97th) call in between); (1) for EVERY storage call index of the action: the call fails, or the future is dropped there (process stops), the handle is dropped and the directory re-opened; (2) a child process performs the action under strace and is SIGKILLed at the entry of every write-class syscall (pwrite64/write/fsync/fdatasync/ftruncate/unlink/rename), including those of the checkpoint on close after the action was acknowledged; oracle: the state seen by a read-only re-open equals the one seen by a read-write re-open, and that state is entirely the before-state or entirely the after-state (the working-set rebuild of sync/undo is its own transaction), never after when abandoned before the commit, always after when the action had returned; distinct_nontrivial = interruption points after the first storage call / at a write syscall");
    rep.assume("process-kill semantics (the kernel keeps written pages); power loss and SQLite's own recovery code are trusted");
    let q = opts.tier == Tier::Quick;
    let plan: Vec<(Prior, Action)> = if q {
        vec![(Prior::Small, Action::Commit), (Prior::Synced, Action::Undo), (Prior::Synced, Action::Rebuild(true)), (Prior::Small, Action::Sync), (Prior::BigSpan, Action::Undo)]
    } else {
        let mut v = vec![];
        for p in [Prior::Small, Prior::Synced] {
            for a in [Action::Commit, Action::Undo, Action::Rebuild(true), Action::Rebuild(false), Action::Sync] {
                v.push((p, a));
            }
        }
        v.push((Prior::BigSpan, Action::Undo));
        v.push((Prior::BigSpan, Action::Sync));
        v
    };
    // all abandon sweeps first (in-process, cheap), then the kill sweeps (one traced child process
    // per point: slow when the machine is busy) - a tight budget then cuts the tail of the more
    // expensive part only
    let mut cases = vec![];
    for (prior, action) in plan {
        let c = prepare(prior, action);
        abandon_sweep(&rep, &c, if q { 499 } else { 97 });
        println!("[C06] {prior:?}/{action:?}: {} storage calls x 2 abandon kinds done ({:.1}s)", c.calls.len(), rep.elapsed());
        rep.sample(json!({"prior": format!("{prior:?}"), "action": format!("{action:?}"), "storage_calls": c.calls.iter().take(60).collect::<Vec<_>>()}));
        cases.push(c);
    }
    for c in cases {
        kill_sweep(&rep, &c, if q { 12 } else { 1000 });
        println!("[C06] {:?}/{:?}: kill sweep done, {} kill runs so far ({:.1}s)", c.prior, c.action, rep.get("kill_runs"), rep.elapsed());
        let _ = std::fs::remove_dir_all(&c.dir);
    }
    rep.finish()
}
