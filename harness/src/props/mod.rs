pub mod backend_race;
pub mod c01;
pub mod c02;
pub mod c03;
pub mod c04;
pub mod c05;
pub mod c06;
pub mod c07;
pub mod c08;
pub mod c09;
pub mod c10;
pub mod c11;
pub mod c15;
pub mod c16;
pub mod c17;
pub mod c18;
pub mod c19;
pub mod c20;
pub mod c12;
pub mod c13;
pub mod c14;
pub mod synckill;
pub mod syncsys;
pub mod syncworld;

/// Re-run one replay file without the explorer, printing step-by-step observations.
pub fn replay_file(path: &std::path::Path) -> i32 {
    let s = std::fs::read_to_string(path).expect("cannot read replay file");
    let v: serde_json::Value = serde_json::from_str(&s).expect("replay file is not JSON");
    let case = &v["case"];
    match case["kind"].as_str().unwrap_or("") {
        "syncworld-trace" => {
            let prop = case["property"].as_str().unwrap_or("C01");
            let space = case["space"].as_str().unwrap_or("");
            let acts: Vec<syncworld::Act> = case["trace"]
                .as_array()
                .unwrap()
                .iter()
                .map(|e| serde_json::from_value(e["act"].clone()).unwrap())
                .collect();
            let sys = syncsys::sys_for(prop, space);
            match c01::replay_trace(&sys, &acts, true) {
                Ok(()) => {
                    println!("replay: no violation");
                    0
                }
                Err(e) => {
                    println!("replay: {e}");
                    println!("VIOLATION property={} replay={}", prop, path.display());
                    1
                }
            }
        }
        "c02-race" => verdict(v["property"].as_str().unwrap_or("C02"), path, c02::replay(case)),
        "backend-race" => verdict(v["property"].as_str().unwrap_or("C02"), path, backend_race::replay(case)),
        "c07-trace" => verdict("C07", path, c07::replay(case)),
        "c15-trace" => verdict("C15", path, c15::replay(case)),
        "c19-trace" => verdict("C19", path, c19::replay(case)),
        "c09-schedule" => verdict(v["property"].as_str().unwrap_or("C09"), path, c09::replay(case)),
        "c10-schedule" => verdict("C10", path, c10::replay(case)),
        "c08-sequence" => verdict("C08", path, c08::replay(case)),
        "synckill" => verdict(v["property"].as_str().unwrap_or("C11"), path, synckill::replay(case)),
        "c11-scenario" => verdict("C11", path, c11::replay(case)),
        "c16-script" => verdict("C16", path, c16::replay(case)),
        "c17-schedule" => verdict("C17", path, c17::replay(case)),
        "c04-case" => verdict("C04", path, c04::replay(case)),
        "c18-map" => verdict("C18", path, c18::replay(case)),
        "c05-case" | "c05-large" => verdict("C05", path, c05::replay(case)),
        k if k.starts_with("c03-") => match c03::replay(case) {
            Ok(()) => {
                println!("replay: no violation");
                0
            }
            Err(e) => {
                println!("replay: {e}");
                println!("VIOLATION property=C03 replay={}", path.display());
                1
            }
        },
        k if k.len() > 3 && k.starts_with('c') => {
            // kinds without a dedicated replayer (sub-second checks): re-run the check and
            // report whether the recorded violation (same signature) occurs again
            let prop = v["property"].as_str().unwrap_or("").to_string();
            let sig = v["signature"].as_str().unwrap_or("").to_string();
            std::env::set_var("TCMC_DRY", "1");
            std::env::set_var("TCMC_REPLAY_SIG", &sig);
            let opts = crate::util::Opts { tier: crate::util::Tier::Quick, seed: 0, replay: None, budget_s: 600.0, extra: vec![] };
            println!("replay by re-running {prop} (quick) and looking for [{sig}]");
            let code = crate::dispatch(&prop, &opts);
            if code == 1 {
                println!("VIOLATION property={prop} replay={}", path.display());
            } else if code == 0 {
                println!("replay: no violation");
            }
            code
        }
        k => {
            eprintln!("unknown replay kind {k}");
            2
        }
    }
}

fn verdict(prop: &str, path: &std::path::Path, r: Result<(), String>) -> i32 {
    match r {
        Ok(()) => {
            println!("replay: no violation");
            0
        }
        Err(e) if e.starts_with("replay divergence") => {
            // the recorded schedule cannot be followed on this tree (the code no longer makes
            // the same requests): not a verdict
            println!("replay: {e} -- the recorded schedule does not apply to the current tree");
            2
        }
        Err(e) => {
            println!("replay: {e}");
            println!("VIOLATION property={prop} replay={}", path.display());
            1
        }
    }
}
