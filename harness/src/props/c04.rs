//! C04 – an interrupted sync loses nothing and can simply be repeated
//! (E-FAULT on E-STATE states: every storage call and every server request of a sync x fault kinds).

use super::syncsys::*;
use super::syncworld::*;
use crate::explore::state::{self, StateCfg, Sys};
use crate::model::ops::Tasks;
use crate::util::{Opts, Report, Tier, Violation};
use crate::world::mserver::{MServer, ServerCtl, ServerFault};
use crate::world::proxy::{Ctl, StorageFault};
use crate::world::replicas::{observe, tasks_str, with_replica, Mem};
use crate::world::store::{Kind, Store};
use rayon::prelude::*;
use serde_json::json;
use std::sync::atomic::Ordering;
use std::sync::{Arc, Mutex};
use taskchampion::storage::Storage;

#[derive(Clone, Copy, Debug, PartialEq, Eq, serde::Serialize, serde::Deserialize)]
pub enum FaultAt {
    Storage(usize, StorageFault),
    Server(usize, ServerFault),
}

struct Collect {
    inner: SyncSys,
    states: Mutex<Vec<(World, Vec<Act>)>>,
}

impl Sys for Collect {
    type State = World;
    type Action = Act;
    fn init(&self) -> World {
        self.inner.init()
    }
    fn actions(&self, s: &World, l: usize) -> Vec<Act> {
        self.inner.actions(s, l)
    }
    fn step(&self, s: &World, a: &Act) -> Result<World, String> {
        self.inner.step(s, a)
    }
    fn canon(&self, s: &World) -> u128 {
        self.inner.canon(s)
    }
    fn check(&self, s: &World, trace: &[Act]) -> Result<bool, String> {
        self.states.lock().unwrap().push((s.clone(), trace.to_vec()));
        Ok(false)
    }
}

fn start_states(r: usize, depth: usize, updates: Vec<(String, Option<String>, i64)>, big: u8, populated: bool) -> Vec<(World, Vec<Act>)> {
    let mut inner = SyncSys::new(r);
    inner.updates = updates;
    inner.big_budget = big;
    inner.populated = populated;
    inner.deletes = !populated;
    inner.c01 = false;
    let c = Collect { inner, states: Mutex::new(vec![]) };
    let _ = state::explore(&c, &StateCfg { max_depth: depth, deadline: None, max_found: 1, first_depth: depth, tolerate: vec![] });
    let mut v = c.states.into_inner().unwrap();
    v.retain(|(w, _)| w.obs.iter().any(|o| !o.unsynced.is_empty() || (Some(o.base) != w.chain.latest() && !w.chain.versions.is_empty())));
    v.sort_by_key(|(_, t)| t.len());
    v
}

/// One sync of replica `r` with a fault. The storage is the in-memory one, or (sqlite = true) a
/// real SqliteStorage loaded with the replica's content, re-opened after the fault.
fn faulted_sync(w: &mut World, r: usize, fault: FaultAt, sqlite: bool) -> Result<bool, String> {
    let st = Arc::new(Mutex::new(std::mem::take(&mut w.chain)));
    let mut server = MServer::new(st.clone(), r);
    let sctl = ServerCtl::new();
    let ctl = Ctl::new();
    match fault {
        FaultAt::Storage(k, kind) => ctl.arm(k, kind),
        FaultAt::Server(k, kind) => sctl.arm(k, kind),
    }
    server.ctl = sctl.clone();
    let mut boxed = server.boxed();
    let mut completed = false;
    if !sqlite {
        let fut = with_replica(&mut w.reps[r], ctl.clone(), async |rep| rep.sync(&mut boxed, false).await.map_err(|e| format!("{e:#}")));
        let mut fut = Box::pin(fut);
        match crate::util::poll_once(fut.as_mut()) {
            std::task::Poll::Ready(res) => completed = res.is_ok(),
            std::task::Poll::Pending => {
                if !(ctl.stopped.load(Ordering::SeqCst) || sctl.stopped.load(Ordering::SeqCst)) {
                    return Err("harness: sync is pending although no stop was injected".into());
                }
            }
        }
    } else {
        let mut store = to_sqlite(&mut w.reps[r]);
        crate::util::block_on(async {
            let fut = with_replica(&mut store, ctl.clone(), async |rep| rep.sync(&mut boxed, false).await.map_err(|e| format!("{e:#}")));
            let mut fut = Box::pin(fut);
            loop {
                match crate::util::poll_once(fut.as_mut()) {
                    std::task::Poll::Ready(res) => {
                        completed = res.is_ok();
                        break;
                    }
                    std::task::Poll::Pending => {
                        if ctl.stopped.load(Ordering::SeqCst) || sctl.stopped.load(Ordering::SeqCst) {
                            break;
                        }
                        tokio::task::yield_now().await;
                        std::thread::sleep(std::time::Duration::from_micros(50));
                    }
                }
            }
        });
        // the process "restarts": close and re-open the database, then carry on from what it holds
        store.reopen();
        w.reps[r] = from_store(&mut store);
    }
    drop(boxed);
    w.chain = std::mem::take(&mut *st.lock().unwrap());
    w.obs[r] = Arc::new(obs_of(&mut w.reps[r]));
    Ok(completed)
}

/// Load a replica's content into a fresh SqliteStorage.
fn to_sqlite(m: &mut Mem) -> Store {
    let o = obs_of(m);
    let mut s = Store::fresh(Kind::Sqlite);
    crate::util::block_on(async {
        let mut t = s.txn().await.unwrap();
        for (u, props) in &o.tasks {
            t.set_task(*u, props.clone().into_iter().collect()).await.unwrap();
        }
        for op in &o.unsynced {
            t.add_operation(op.clone()).await.unwrap();
        }
        t.set_base_version(o.base).await.unwrap();
        for w in o.ws.iter().skip(1) {
            // positions are kept by adding and blanking
            let idx = t.add_to_working_set(w.unwrap_or(uuid::Uuid::nil())).await.unwrap();
            if w.is_none() {
                t.set_working_set_item(idx, None).await.unwrap();
            }
        }
        t.commit().await.unwrap();
    });
    s
}

fn from_store(s: &mut Store) -> Mem {
    let o = crate::util::block_on(observe(s));
    let mut m = Mem::default();
    crate::util::block_on(async {
        let mut t = m.txn().await.unwrap();
        for (u, props) in &o.tasks {
            t.set_task(*u, props.clone().into_iter().collect()).await.unwrap();
        }
        for op in &o.unsynced {
            t.add_operation(op.clone()).await.unwrap();
        }
        t.set_base_version(o.base).await.unwrap();
        for w in o.ws.iter().skip(1) {
            let idx = t.add_to_working_set(w.unwrap_or(uuid::Uuid::nil())).await.unwrap();
            if w.is_none() {
                t.set_working_set_item(idx, None).await.unwrap();
            }
        }
        t.commit().await.unwrap();
    });
    m
}

fn perms(n: usize) -> Vec<Vec<usize>> {
    let mut out = vec![];
    fn rec(v: &mut Vec<usize>, k: usize, out: &mut Vec<Vec<usize>>) {
        if k == v.len() {
            out.push(v.clone());
            return;
        }
        for i in k..v.len() {
            v.swap(k, i);
            rec(v, k + 1, out);
            v.swap(k, i);
        }
    }
    rec(&mut (0..n).collect(), 0, &mut out);
    out
}

/// The converged results of fault-free runs, for every order in which the replicas first sync.
fn reference_results(w: &World) -> Result<Vec<Tasks>, String> {
    let mut out: Vec<Tasks> = vec![];
    for order in perms(w.reps.len()) {
        let mut w2 = w.clone();
        for &i in &order {
            do_sync(&mut w2, i, Urg::None, false, None, None).result.map_err(|e| format!("reference sync failed: {e}"))?;
        }
        let (t, _) = quiesce(&w2)?;
        if !out.contains(&t) {
            out.push(t);
        }
    }
    Ok(out)
}

/// Count the storage calls and server requests of a fault-free sync of replica r.
fn record(w: &World, r: usize) -> (Vec<String>, Vec<String>) {
    let mut w2 = w.clone();
    let ctl = Ctl::new();
    ctl.start_recording();
    let sctl = ServerCtl::new();
    let out = do_sync(&mut w2, r, Urg::None, false, Some(sctl), Some(ctl.clone()));
    (ctl.take_log(), out.server_log)
}

pub fn check_case(w: &World, r: usize, fault: FaultAt, refs: &[Tasks], sqlite: bool) -> Result<bool, String> {
    let mut w2 = w.clone();
    let completed = faulted_sync(&mut w2, r, fault, sqlite)?;
    for (i, o) in w2.obs.iter().enumerate() {
        replica_invariant(&w2.chain, o, i).map_err(|e| format!("{e} [right after the fault]"))?;
    }
    let (t, _) = quiesce(&w2).map_err(|e| format!("{e} [when syncing again after the fault]"))?;
    if !refs.contains(&t) {
        return Err(format!(
            "different-result: after the interrupted sync and further syncs the replicas converge to {} but fault-free runs converge to {}",
            tasks_str(&t),
            refs.iter().map(tasks_str).collect::<Vec<_>>().join(" or ")
        ));
    }
    // non-trivial: the server had accepted a version of this sync although the sync did not complete
    Ok(!completed && w2.chain.versions.len() > w.chain.versions.len())
}

fn faults_for(storage_calls: usize, server_calls: usize) -> Vec<FaultAt> {
    let mut v = vec![];
    for k in 0..storage_calls {
        v.push(FaultAt::Storage(k, StorageFault::Error));
        v.push(FaultAt::Storage(k, StorageFault::Stop));
    }
    for k in 0..server_calls {
        for kind in [ServerFault::ErrorBefore, ServerFault::LostReply, ServerFault::StopBefore, ServerFault::StopAfter] {
            v.push(FaultAt::Server(k, kind));
        }
    }
    v
}

fn run_space(rep: &Report, name: &str, starts: Vec<(World, Vec<Act>)>, sqlite: bool) {
    let jobs: Vec<(usize, usize)> = starts
        .iter()
        .enumerate()
        .flat_map(|(i, (w, _))| (0..w.reps.len()).filter(move |&r| !w.obs[r].unsynced.is_empty() || Some(w.obs[r].base) != w.chain.latest() && !w.chain.versions.is_empty()).map(move |r| (i, r)))
        .collect();
    let skipped = std::sync::atomic::AtomicU64::new(0);
    let results: Vec<(usize, usize, Vec<(FaultAt, Result<bool, String>)>)> = jobs
        .par_iter()
        .map(|&(i, r)| {
            if rep.over_budget() {
                skipped.fetch_add(1, Ordering::Relaxed);
                return (i, r, vec![]);
            }
            let w = &starts[i].0;
            let refs = match reference_results(w) {
                Ok(x) => x,
                Err(e) => return (i, r, vec![(FaultAt::Server(0, ServerFault::ErrorBefore), Err(format!("reference: {e}")))]),
            };
            let (sc, vc) = record(w, r);
            let out = faults_for(sc.len(), vc.len()).into_iter().map(|f| (f, check_case(w, r, f, &refs, sqlite))).collect();
            (i, r, out)
        })
        .collect();
    let (mut evals, mut nontrivial) = (0u64, 0u64);
    for (i, r, outs) in results {
        for (f, res) in outs {
            evals += 1;
            match res {
                Ok(nt) => nontrivial += nt as u64,
                Err(e) => {
                    let class = e.split(':').next().unwrap_or("").to_string();
                    let fk = match f {
                        FaultAt::Storage(_, k) => format!("storage-{k:?}"),
                        FaultAt::Server(_, k) => format!("server-{k:?}"),
                    };
                    rep.violation(Violation::new(
                        format!("{class}:{fk}:{name}"),
                        format!("{e} [replica {r}, fault {f:?}]"),
                        json!({"kind": "c04-case", "space": name, "sqlite": sqlite, "replicas": starts[i].0.reps.len(), "prior_history": super::c01::trace_json(&starts[i].1), "replica": r, "fault": f, "observed": e}),
                    ));
                }
            }
        }
    }
    let sk = skipped.load(Ordering::Relaxed);
    if sk > 0 {
        rep.set("exhaustive", false);
    }
    rep.add("evaluations", evals);
    rep.add("distinct_nontrivial", nontrivial);
    rep.set(&format!("space_{name}"), json!({"start_states": starts.len(), "syncs_faulted": jobs.len(), "fault_runs": evals, "server_accepted_but_sync_incomplete": nontrivial, "skipped": sk, "sqlite": sqlite}));
    if let Some((w, h)) = starts.get(starts.len() / 2) {
        let (sc, vc) = record(w, 0);
        rep.sample(json!({"space": name, "prior_history": h.iter().map(act_str).collect::<Vec<_>>(), "storage_calls_of_sync": sc, "server_requests_of_sync": vc}));
    }
    println!("[C04] {name}: {} start states, {} faulted syncs, {evals} fault runs, {nontrivial} with a version accepted by the server but the sync incomplete, {sk} skipped ({:.1}s)", starts.len(), jobs.len(), rep.elapsed());
}

// ---------------------------------------------------------------- working set after an interrupted sync

fn ws_op(t: u8, p: &str, v: &str, old: Option<&str>) -> taskchampion::Operation {
    taskchampion::Operation::Update {
        uuid: crate::world::replicas::tid(t),
        property: p.into(),
        old_value: old.map(|s| s.to_string()),
        value: Some(v.into()),
        timestamp: ts(2),
    }
}

fn commit_to(w: &mut World, r: usize, ops_: Vec<taskchampion::Operation>) {
    crate::util::block_on(with_replica(&mut w.reps[r], Ctl::new(), async |rep| rep.commit_operations(ops_).await)).expect("commit");
    w.obs[r] = Arc::new(obs_of(&mut w.reps[r]));
}

/// What must hold of a working set that was rebuilt without renumbering: slot 0 empty, exactly
/// the pending tasks, each once.
fn ws_complete(o: &crate::world::replicas::Obs) -> Result<(), String> {
    let mut pend: Vec<uuid::Uuid> = o.tasks.iter().filter(|(_, m)| matches!(m.get("status").map(|s| s.as_str()), Some("pending") | Some("recurring"))).map(|(u, _)| *u).collect();
    let mut in_ws: Vec<uuid::Uuid> = o.ws.iter().skip(1).flatten().copied().collect();
    pend.sort();
    in_ws.sort();
    if o.ws.first().is_some_and(|x| x.is_some()) || pend != in_ws {
        return Err(format!(
            "working-set-stale: after the interrupted sync was repeated the working set lists {:?} but the pending tasks are {:?}",
            in_ws.iter().map(|u| crate::world::replicas::tname(*u)).collect::<Vec<_>>(),
            pend.iter().map(|u| crate::world::replicas::tname(*u)).collect::<Vec<_>>()
        ));
    }
    Ok(())
}

/// "Synchronizing again reaches the same converged result as an uninterrupted sync" - the result
/// of a sync includes the working set it rebuilds (its own storage transaction after the one
/// that applies the versions). Replica 0 holds a pending task of its own and an older shared
/// pending task; the server has a version that adds two pending tasks and completes the shared
/// one. Its sync is interrupted at every storage call and server request (every fault kind), then
/// simply repeated; the outcome is compared with that of the uninterrupted sync.
fn working_set_family(rep: &Report) {
    use taskchampion::Operation;
    let tid = crate::world::replicas::tid;
    for sqlite in [false, true] {
        let mut w = World::new(2);
        // shared history: T1 pending, known to both
        commit_to(&mut w, 1, vec![Operation::Create { uuid: tid(1) }, ws_op(1, "status", "pending", None)]);
        do_sync(&mut w, 1, Urg::None, false, None, None).result.expect("setup sync");
        do_sync(&mut w, 0, Urg::None, false, None, None).result.expect("setup sync");
        // replica 1: two new pending tasks, one completed one, completes T1; pushed
        commit_to(
            &mut w,
            1,
            vec![
                Operation::Create { uuid: tid(2) },
                ws_op(2, "status", "pending", None),
                Operation::Create { uuid: tid(3) },
                ws_op(3, "status", "recurring", None),
                Operation::Create { uuid: tid(5) },
                ws_op(5, "status", "completed", None),
                ws_op(1, "status", "completed", Some("pending")),
            ],
        );
        do_sync(&mut w, 1, Urg::None, false, None, None).result.expect("setup sync");
        // replica 0: a pending task of its own, not yet pushed
        commit_to(&mut w, 0, vec![Operation::Create { uuid: tid(4) }, ws_op(4, "status", "pending", None)]);
        // the uninterrupted sync (and a second, idle one)
        let mut r = w.clone();
        do_sync(&mut r, 0, Urg::None, false, None, None).result.expect("reference sync");
        do_sync(&mut r, 0, Urg::None, false, None, None).result.expect("reference sync");
        let want = r.obs[0].clone();
        if let Err(e) = ws_complete(&want) {
            rep.violation(Violation::new("working-set-stale:uninterrupted", format!("{e} [no fault]"), json!({"kind": "c04-working-set", "sqlite": sqlite, "fault": null})));
            continue;
        }
        let (sc, vc) = record(&w, 0);
        for f in faults_for(sc.len(), vc.len()) {
            let mut w2 = w.clone();
            let res: Result<(), String> = (|| {
                faulted_sync(&mut w2, 0, f, sqlite)?;
                replica_invariant(&w2.chain, &w2.obs[0], 0).map_err(|e| format!("{e} [right after the fault]"))?;
                // simply repeat the sync (twice: the second has nothing to exchange)
                for _ in 0..2 {
                    do_sync(&mut w2, 0, Urg::None, false, None, None).result.map_err(|e| format!("resync-failed: {e}"))?;
                }
                let got = &w2.obs[0];
                if got.tasks != want.tasks {
                    return Err(format!("different-result: the repeated sync ends with {} but the uninterrupted one with {}", tasks_str(&got.tasks), tasks_str(&want.tasks)));
                }
                ws_complete(got)?;
                // numbers in use before the sync are kept (rebuild without renumbering)
                for (i, e) in w.obs[0].ws.iter().enumerate() {
                    if let Some(u) = e {
                        if got.tasks.get(u).is_some_and(|m| m.get("status").map(|s| s.as_str()) == Some("pending")) && got.ws.get(i) != Some(&Some(*u)) {
                            return Err(format!("working-set-renumbered: {} had number {i} before the interrupted sync and lost it", crate::world::replicas::tname(*u)));
                        }
                    }
                }
                Ok(())
            })();
            rep.add("evaluations", 1);
            rep.add("working_set_fault_runs", 1);
            if let Err(e) = res {
                let class = e.split(':').next().unwrap_or("").to_string();
                rep.violation(Violation::new(
                    format!("{class}:working-set:{}", if sqlite { "sqlite" } else { "memory" }),
                    format!("{e} [sync of a replica that pulls two pending tasks and a completion, fault {f:?}, storage calls {sc:?}]"),
                    json!({"kind": "c04-working-set", "sqlite": sqlite, "fault": f}),
                ));
            }
        }
        println!("[C04] working set after an interrupted and repeated sync ({}): {} storage calls, {} server requests ({:.1}s)", if sqlite { "sqlite" } else { "memory" }, sc.len(), vc.len(), rep.elapsed());
    }
}

pub fn run(opts: &Opts) -> i32 {
    let rep = Report::new("C04", "fault_enumeration", opts);
    rep.set("exhaustive", true);
    let q = opts.tier == Tier::Quick;
    rep.set("rule", "start states = every distinct state of the C01 space (2 and 3 replicas, also with a 1 MB operation that makes the sync send several versions) up to a depth in which some replica has something to sync; for every such replica ONE sync with a fault at every StorageTxn call index x {error, process stop = future dropped and storage re-read} and at every Server request x {error before effect, effect then lost reply, stop before, stop after effect}; on the in-memory storage and, for a subset, on a real SqliteStorage that is closed and re-opened after the fault; oracle: replica invariant right after the fault for every replica, then quiescence succeeds and the converged tasks equal those of a fault-free run (any first-sync order); plus (a) a replica whose sync pulls pending tasks and a completion, interrupted at every storage call / server request and then simply repeated: tasks and working set must equal those of the uninterrupted sync (the working-set rebuild is the sync's second transaction); (b) a child process running the whole sync of a SQLite replica against the on-disk local server, SIGKILLed at write syscalls, then re-opened and continued; distinct_nontrivial = runs in which the server accepted a version although the sync did not complete");
    let three = vec![("p".to_string(), Some("a".to_string()), 1), ("p".to_string(), Some("b".to_string()), 2), ("q".to_string(), Some("a".to_string()), 1)];
    working_set_family(&rep);
    // a real process kill: a child runs the whole sync of a SQLite replica against the on-disk
    // local server and is SIGKILLed at its write syscalls (machinery shared with C11)
    rep.assume("sync-kill part: process-kill semantics (the kernel keeps written pages), kill instants = entries of the write-class syscalls of the child");
    for sit in [super::synckill::Situation::PullThenPush, super::synckill::Situation::PushOnly] {
        super::synckill::kill_sweep(&rep, "C04", sit, if q { 6 } else { 10_000 });
    }
    run_space(&rep, "R2-small", start_states(2, if q { 5 } else { 6 }, small_updates(), 0, false), false);
    run_space(&rep, "R2-populated", start_states(2, if q { 4 } else { 5 }, three.clone(), 0, true), false);
    run_space(&rep, "R2-big", start_states(2, if q { 4 } else { 5 }, vec![("p".into(), Some("a".into()), 1), ("p".into(), Some("b".into()), 2)], 1, false), false);
    run_space(&rep, "R3-populated", start_states(3, if q { 3 } else { 4 }, three.clone(), 0, true), false);
    let mut sq = start_states(2, 3, three, 0, true);
    sq.truncate(if q { 40 } else { 200 });
    run_space(&rep, "R2-populated-sqlite", sq, true);
    rep.finish()
}

pub fn replay(case: &serde_json::Value) -> Result<(), String> {
    let n = case["replicas"].as_u64().unwrap_or(2) as usize;
    let acts: Vec<Act> = case["prior_history"].as_array().unwrap().iter().map(|e| serde_json::from_value(e["act"].clone()).unwrap()).collect();
    let mut sys = SyncSys::new(n);
    sys.c01 = false;
    sys.populated = case["space"].as_str().unwrap_or("").contains("populated");
    let mut w = sys.init();
    for a in &acts {
        println!("prior: {}", act_str(a));
        w = sys.step(&w, a)?;
    }
    let r = case["replica"].as_u64().unwrap_or(0) as usize;
    let f: FaultAt = serde_json::from_value(case["fault"].clone()).map_err(|e| e.to_string())?;
    let (sc, vc) = record(&w, r);
    println!("sync of replica {r}: storage calls {sc:?}; server requests {vc:?}; fault {f:?}");
    let refs = reference_results(&w)?;
    check_case(&w, r, f, &refs, case["sqlite"].as_bool().unwrap_or(false)).map(|_| ())
}
