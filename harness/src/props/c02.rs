//! C02 – convergence survives racing syncs and rejected versions (E-SCHED on E-STATE states).

use super::syncsys::*;
use super::syncworld::*;
use crate::explore::sched::{explore, Choice, ExploreCfg, GateH, Outcome, Scenario, TaskFut};
use crate::explore::state::{self, StateCfg, Sys};
use crate::util::{Opts, Report, Tier, Violation};
use crate::world::mserver::{ChainState, MServer};
use crate::world::proxy::Ctl;
use crate::world::replicas::{with_replica, Mem};
use rayon::prelude::*;
use serde_json::json;
use std::sync::{Arc, Mutex};

/// Wraps a SyncSys and collects every distinct reachable state.
struct Collect {
    inner: SyncSys,
    states: Mutex<Vec<(World, Vec<Act>)>>,
}

impl Sys for Collect {
    type State = World;
    type Action = Act;
    fn init(&self) -> World {
        self.inner.init()
    }
    fn actions(&self, s: &World, l: usize) -> Vec<Act> {
        self.inner.actions(s, l)
    }
    fn step(&self, s: &World, a: &Act) -> Result<World, String> {
        self.inner.step(s, a)
    }
    fn canon(&self, s: &World) -> u128 {
        self.inner.canon(s)
    }
    fn check(&self, s: &World, trace: &[Act]) -> Result<bool, String> {
        self.states.lock().unwrap().push((s.clone(), trace.to_vec()));
        Ok(false)
    }
}

pub struct Race {
    pub world: World,
    pub racers: Vec<usize>,
    /// the snapshot urgency the server answers with during the race
    pub urg: Urg,
    /// evaluate only the snapshot oracle of C12 (every snapshot uploaded during the race equals
    /// the chain replay at its version) instead of the convergence oracle of C02
    pub snapshots_only: bool,
    /// tasks that must not exist / must exist once everything has quiesced (C20: an expired task
    /// stays gone, an unrelated one stays)
    pub must_be_absent: Vec<uuid::Uuid>,
    pub must_be_present: Vec<uuid::Uuid>,
    /// the state every sequential sync order converges to (C03: overlapping syncs must agree)
    pub expect_tasks: Option<crate::model::ops::Tasks>,
}

pub struct RaceCtx {
    chain: Arc<Mutex<ChainState>>,
}

type Out = (Mem, Result<(), String>);

async fn sync_task(mut mem: Mem, chain: Arc<Mutex<ChainState>>, gate: GateH, who: usize, urg: Urg) -> Out {
    let mut server = MServer::new(chain, who);
    server.gate = gate;
    server.ctl.urgency.lock().unwrap().1 = Some(urg.to_real());
    let mut boxed = server.boxed();
    let r = with_replica(&mut mem, Ctl::new(), async |rep| rep.sync(&mut boxed, false).await.map_err(|e| format!("{e:#}"))).await;
    (mem, r)
}

impl Scenario for Race {
    type Ctx = RaceCtx;
    type Out = Out;

    fn n_tasks(&self) -> usize {
        self.racers.len()
    }

    fn build(&self, gates: Vec<GateH>) -> (RaceCtx, Vec<TaskFut<Out>>) {
        let chain = Arc::new(Mutex::new(self.world.chain.clone()));
        let mut futs: Vec<TaskFut<Out>> = vec![];
        for (k, &r) in self.racers.iter().enumerate() {
            let mem = self.world.reps[r].clone();
            futs.push(Box::pin(sync_task(mem, chain.clone(), gates[k].clone(), r, self.urg)));
        }
        (RaceCtx { chain }, futs)
    }

    fn state_hash(&self, ctx: &RaceCtx) -> u64 {
        let c = ctx.chain.lock().unwrap();
        let v: Vec<(u128, u64)> = c.versions.iter().map(|v| (v.id.as_u128(), v.h)).collect();
        let s: Vec<(u128, u64)> = c.snapshots.iter().map(|(v, b)| (v.as_u128(), snap_hash(b))).collect();
        crate::util::h64(&(v, s, c.next_id))
    }

    fn response_hash(&self, ctx: &RaceCtx, _task: usize, label: &str) -> u64 {
        use crate::world::mserver::short;
        let c = ctx.chain.lock().unwrap();
        if let Some(x) = label.strip_prefix("get_child_version(").and_then(|l| l.strip_suffix(')')) {
            let child = c.versions.iter().find(|v| short(v.parent) == x).map(|v| (v.id.as_u128(), v.h));
            crate::util::h64(&("gcv", child))
        } else if label.starts_with("add_version(") {
            crate::util::h64(&("av", c.latest().map(|u| u.as_u128()), c.next_id))
        } else if label == "get_snapshot" {
            let best = c.snapshots.iter().filter_map(|(v, b)| c.index_of(*v).map(|i| (i, snap_hash(b)))).max();
            crate::util::h64(&("gs", best))
        } else {
            0
        }
    }

    fn check(&self, ctx: RaceCtx, results: Vec<Option<Out>>, _stopped: &[bool], _trace: &[(Choice, String)]) -> Result<Outcome, String> {
        let mut w = self.world.clone();
        w.chain = ctx.chain.lock().unwrap().clone();
        let rejections = w.chain.rejections - self.world.chain.rejections;
        for (k, res) in results.into_iter().enumerate() {
            let r = self.racers[k];
            let (mem, result) = res.ok_or_else(|| format!("deadlock: racing sync of replica {r} did not finish"))?;
            w.reps[r] = mem;
            w.obs[r] = Arc::new(obs_of(&mut w.reps[r]));
            if let Err(e) = result {
                let class = if e.contains("out of sync") { "out-of-sync" } else { "sync-failed" };
                return Err(format!("{class}: racing sync of replica {r} failed: {e}"));
            }
        }
        if self.snapshots_only {
            let mut n = 0;
            for (v, bytes) in &w.chain.snapshots[self.world.chain.snapshots.len()..] {
                n += 1;
                let got = decode_snapshot(bytes).map_err(|e| format!("snapshot-format: {e}"))?;
                let segs = w.chain.segments_upto(*v).ok_or_else(|| "snapshot-version: snapshot for a version that is not on the chain".to_string())?;
                let want = crate::model::ops::replay_chain(segs).map_err(|e| format!("wire-format: {e}"))?;
                if got != want {
                    return Err(format!(
                        "snapshot-content: the snapshot uploaded for {} during racing syncs contains {} but the chain up to that version replays to {}",
                        crate::world::replicas::tname(*v),
                        crate::world::replicas::tasks_str(&got),
                        crate::world::replicas::tasks_str(&want)
                    ));
                }
            }
            return Ok(Outcome { outcome_hash: crate::util::h64(&(w.chain.versions.len(), n, rejections)), nontrivial: n > 0 && rejections > 0 });
        }
        for (i, o) in w.obs.iter().enumerate() {
            replica_invariant(&w.chain, o, i)?;
        }
        let (tasks, _) = quiesce(&w)?;
        if let Some(u) = self.must_be_absent.iter().find(|u| tasks.contains_key(u)) {
            return Err(format!("resurrected: task {u} is back after overlapping syncs: {}", crate::world::replicas::tasks_str(&tasks)));
        }
        if let Some(u) = self.must_be_present.iter().find(|u| !tasks.contains_key(u)) {
            return Err(format!("collateral: task {u} vanished after overlapping syncs"));
        }
        if let Some(want) = &self.expect_tasks {
            if *want != tasks {
                return Err(format!(
                    "order-dependence: overlapping syncs converge to {} but syncing one after the other converges to {}",
                    crate::world::replicas::tasks_str(&tasks),
                    crate::world::replicas::tasks_str(want)
                ));
            }
        }
        Ok(Outcome {
            outcome_hash: crate::util::h64(&(format!("{tasks:?}"), w.chain.versions.len(), rejections)),
            nontrivial: rejections > 0,
        })
    }
}

pub fn start_states(r: usize, depth: usize, updates: Vec<(String, Option<String>, i64)>, big: u8, populated: bool) -> Vec<(World, Vec<Act>)> {
    start_states_active(r, r, depth, updates, big, populated)
}

pub fn start_states_active(r: usize, active: usize, depth: usize, updates: Vec<(String, Option<String>, i64)>, big: u8, populated: bool) -> Vec<(World, Vec<Act>)> {
    let mut inner = SyncSys::new(r);
    inner.active = active;
    inner.updates = updates;
    inner.big_budget = big;
    inner.populated = populated;
    inner.deletes = !populated;
    inner.c01 = false;
    let c = Collect {
        inner,
        states: Mutex::new(vec![]),
    };
    let cfg = StateCfg {
        max_depth: depth,
        deadline: None,
        max_found: 1,
        first_depth: depth,
        tolerate: vec![],
    };
    let _ = state::explore(&c, &cfg);
    let mut v = c.states.into_inner().unwrap();
    // keep states in which at least two replicas have something to do, one of them pending
    v.retain(|(w, _)| {
        let pend = w.obs.iter().filter(|o| !o.unsynced.is_empty()).count();
        let behind = w
            .obs
            .iter()
            .filter(|o| o.unsynced.is_empty() && Some(o.base) != w.chain.latest() && !w.chain.versions.is_empty())
            .count();
        pend >= 1 && pend + behind >= 2
    });
    v.sort_by_key(|(_, t)| t.len());
    v
}

pub fn subsets(n: usize) -> Vec<Vec<usize>> {
    let mut out = vec![];
    for m in 1u32..(1 << n) {
        if m.count_ones() >= 2 {
            out.push((0..n).filter(|i| m & (1 << i) != 0).collect());
        }
    }
    out
}

/// Hash of a snapshot's decoded content (its bytes depend on hash-map iteration order).
fn snap_hash(b: &[u8]) -> u64 {
    match decode_snapshot(b) {
        Ok(t) => crate::util::h64(&t),
        Err(_) => crate::util::h64(&b),
    }
}

pub fn trace_to_json(tr: &[(Choice, String)]) -> serde_json::Value {
    json!(tr.iter().map(|(c, l)| json!({"choice": c, "at": l})).collect::<Vec<_>>())
}

/// Explore every race set of every start state of one space (used by C02 and, for a small space
/// of overlapping syncs, by C01).
#[allow(clippy::too_many_arguments)]
pub fn race_space(prop: &str, rep: &Report, opts: &Opts, name: &str, starts: &[(World, Vec<Act>)], urg: Urg, d0: usize, bound3: usize, deadline: std::time::Instant) {
    let jobs: Vec<(usize, Vec<usize>)> = starts
        .iter()
        .enumerate()
        .flat_map(|(i, (w, _))| {
            subsets(w.reps.len())
                .into_iter()
                .filter(|s| {
                    // every racer has something to do and at least one pushes
                    s.iter().all(|&r| !w.obs[r].unsynced.is_empty() || Some(w.obs[r].base) != w.chain.latest() && !w.chain.versions.is_empty())
                        && s.iter().any(|&r| !w.obs[r].unsynced.is_empty())
                })
                .map(move |s| (i, s))
        })
        .collect();
    let results: Vec<_> = jobs
        .par_iter()
        .enumerate()
        .map(|(jdx, (i, racers))| {
            let sc = Race {
                world: starts[*i].0.clone(),
                racers: racers.clone(),
                urg,
                snapshots_only: false,
                must_be_absent: vec![],
                must_be_present: vec![],
                expect_tasks: None,
            };
            let cfg = ExploreCfg {
                bound: if racers.len() >= 3 { bound3 } else { usize::MAX },
                max_schedules: 2_000_000,
                deadline: Some(deadline),
                seen: Some(Default::default()),
            };
            let (st, fails) = explore(&sc, &cfg);
            // pruning self-check on every 32nd (thorough: 8th) race: same outcomes as unpruned
            let (every, cap) = if opts.tier == Tier::Quick { (32, 3_000) } else { (8, 100_000) };
            if jdx % every == 0 && fails.is_empty() && !st.capped {
                match crate::explore::sched::pruning_selfcheck(&sc, cfg.bound, cap) {
                    Some(Ok(_)) => rep.add("pruning_selfcheck_races_equal_to_unpruned", 1),
                    Some(Err(e)) => {
                        eprintln!("MACHINERY ERROR: {prop} state-key pruning is unsound in space {name}, racers {racers:?}: {e}");
                        std::process::exit(2);
                    }
                    None => rep.add("pruning_selfcheck_races_skipped_unpruned_too_large", 1),
                }
            }
            (*i, racers.clone(), st, fails)
        })
        .collect();
    let mut schedules = 0u64;
    let mut steps = 0u64;
    let mut nontrivial = 0u64;
    let mut outcomes = 0u64;
    let mut capped = false;
    let mut sampled = false;
    for (i, racers, st, fails) in results {
        schedules += st.schedules;
        steps += st.steps;
        nontrivial += st.nontrivial_outcomes.len() as u64;
        outcomes += st.outcomes.len() as u64;
        capped |= st.capped;
        if !sampled && !st.sample_traces.is_empty() {
            sampled = true;
            rep.sample(json!({"space": name, "prior_history": starts[i].1.iter().map(act_str).collect::<Vec<_>>(), "racing_replicas": racers,
                              "schedule_with_rejection": st.sample_traces[0].iter().map(|(c, l)| format!("R{}:{}", racers[c.task], l)).collect::<Vec<_>>()}));
        }
        for f in fails.into_iter().take(1) {
            let class = f.what.split(':').next().unwrap_or("").to_string();
            // replay twice before reporting
            let sc = Race { world: starts[i].0.clone(), racers: racers.clone(), urg, snapshots_only: false, must_be_absent: vec![], must_be_present: vec![], expect_tasks: None };
            let choices: Vec<Choice> = f.trace.iter().map(|(c, _)| *c).collect();
            let r1 = crate::explore::sched::replay(&sc, &choices).map(|(_, r)| r.err());
            let r2 = crate::explore::sched::replay(&sc, &choices).map(|(_, r)| r.err());
            if r1 != r2 || !matches!(r1, Ok(Some(_))) {
                eprintln!("MACHINERY ERROR: {prop} violation does not replay deterministically: {r1:?} vs {r2:?}");
                std::process::exit(2);
            }
            rep.violation(Violation::new(
                format!("{class}:{name}"),
                f.what.clone(),
                json!({"kind": "c02-race", "property": prop, "space": name, "urgency": urg, "replicas": starts[i].0.reps.len(),
                       "prior_history": super::c01::trace_json(&starts[i].1), "racers": racers,
                       "schedule": trace_to_json(&f.trace), "observed": f.what}),
            ));
        }
    }
    rep.add("states", starts.len() as u64);
    rep.add("start_state_race_sets", jobs.len() as u64);
    rep.add("transitions", steps);
    rep.add("schedules", schedules);
    rep.add("traces_validated_against_impl", schedules);
    rep.add("distinct_nontrivial", nontrivial);
    rep.add("distinct_outcomes", outcomes);
    if capped {
        rep.set("exhaustive", false);
    }
    rep.set(&format!("space_{name}"), json!({"start_states": starts.len(), "race_sets": jobs.len(), "schedules": schedules, "requests_scheduled": steps,
           "distinct_outcomes_with_rejection": nontrivial, "capped": capped, "prior_depth": d0, "triple_preemption_bound": bound3}));
    println!("[{prop}] {name}: {} start states, {} race sets, {schedules} schedules, {steps} scheduled requests, {nontrivial} distinct outcomes with a rejected version, capped={capped} ({:.1}s)", starts.len(), jobs.len(), rep.elapsed());
}

pub fn run(opts: &Opts) -> i32 {
    let rep = Report::new("C02", "model_checking", opts);
    rep.set("exhaustive", true);
    rep.set("rule", "start states = every distinct state of the C01 space (3 replicas) up to depth d0 in which >=2 replicas have pending operations or unseen versions; from each, every subset of >=2 replicas runs Replica::sync concurrently and EVERY interleaving of their individual server requests (get_snapshot/get_child_version/add_version/add_snapshot) is executed under the controlled scheduler (pairs: all interleavings; triples: preemption-bounded); oracle: every sync returns Ok (never OutOfSync), replica invariant, quiescence convergence = chain replay; plus two whole syncs racing through the real local / object-store (thorough: git) server backends at request granularity; non-trivial = schedules in which the server rejected at least one version (ExpectedParentVersion)");
    rep.assume("request granularity: one Server trait call is atomic at the harness server (docs/src/sync-protocol.md: atomically with respect to other requests)");
    let q = opts.tier == Tier::Quick;
    let d0 = if q { 4 } else { 5 };
    let bound3 = if q { 2 } else { 3 };
    let three = vec![("p".to_string(), Some("a".to_string()), 1), ("p".to_string(), Some("b".to_string()), 2), ("q".to_string(), Some("a".to_string()), 1)];
    let mut spaces = vec![
        ("R3-small", start_states(3, d0, small_updates(), 0, false), Urg::None),
        ("R3-populated", start_states(3, if q { 5 } else { 6 }, three.clone(), 0, true), Urg::None),
        // a brand-new third replica races with the others while the server asks for snapshots:
        // get_snapshot / add_snapshot requests interleave with the version requests
        ("R3-fresh-replica-snapshots", start_states_active(3, 2, if q { 4 } else { 5 }, three.clone(), 0, false), Urg::High),
    ];
    // several versions per sync on a populated base: pending lists like [p=a, <1 MB>, p=b] whose
    // order matters across the batch boundary, racing with another replica's version
    spaces.push(("R2-big-populated", start_states(2, if q { 4 } else { 5 }, if q { vec![("p".into(), Some("a".into()), 1), ("p".into(), Some("b".into()), 2)] } else { vec![("p".into(), Some("a".into()), 1), ("p".into(), Some("b".into()), 2), ("q".into(), Some("a".into()), 1)] }, 1, true), Urg::None));
    if !q {
        spaces.push(("R3-big", start_states(3, 5, vec![("p".into(), Some("a".into()), 1), ("p".into(), Some("b".into()), 2)], 1, false), Urg::None));
        spaces.push(("R3-big-snapshots", start_states_active(3, 2, 5, vec![("p".into(), Some("a".into()), 1)], 1, false), Urg::High));
        spaces.push(("R2-big", start_states(2, 5, vec![("p".into(), Some("a".into()), 1), ("p".into(), Some("b".into()), 2)], 1, false), Urg::None));
    }
    let deadline = std::time::Instant::now() + std::time::Duration::from_secs_f64(opts.budget_s);
    for (name, starts, urg) in spaces {
        race_space("C02", &rep, opts, name, &starts, urg, d0, bound3, deadline);
    }
    // the same guarantee with a real server backend in the middle: two whole syncs racing through
    // the local SQLite server, the object-store server (thorough: git with a shared remote)
    super::backend_race::run("C02", &rep, opts.tier);
    rep.finish()
}

pub fn replay(case: &serde_json::Value) -> Result<(), String> {
    let n = case["replicas"].as_u64().unwrap_or(3) as usize;
    let acts: Vec<Act> = case["prior_history"].as_array().unwrap().iter().map(|e| serde_json::from_value(e["act"].clone()).unwrap()).collect();
    let mut sys = SyncSys::new(n);
    sys.c01 = false;
    sys.populated = case["space"].as_str().unwrap_or("").contains("populated");
    let mut w = sys.init();
    for a in &acts {
        println!("prior: {}", act_str(a));
        w = sys.step(&w, a)?;
    }
    let racers: Vec<usize> = serde_json::from_value(case["racers"].clone()).map_err(|e| e.to_string())?;
    let choices: Vec<Choice> = case["schedule"].as_array().unwrap().iter().map(|e| serde_json::from_value(e["choice"].clone()).unwrap()).collect();
    let urg: Urg = serde_json::from_value(case["urgency"].clone()).unwrap_or(Urg::None);
    if case["space"].as_str().unwrap_or("").contains("fresh") || case["space"].as_str().unwrap_or("").contains("snapshots") {
        // prior history of these spaces only uses the first two replicas; nothing else differs
    }
    let sc = Race { world: w, racers: racers.clone(), urg, snapshots_only: case["snapshots_only"].as_bool().unwrap_or(false), must_be_absent: vec![], must_be_present: vec![], expect_tasks: None };
    let (trace, r) = crate::explore::sched::replay(&sc, &choices)?;
    for (c, l) in &trace {
        println!("  R{} {}", racers[c.task], l);
    }
    r.map(|_| ())
}
