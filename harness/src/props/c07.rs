//! C07 – undo restores the exact prior state and withdraws the changes from sync (E-STATE).

use crate::explore::state::{explore, StateCfg, Sys};
use crate::model::ops::{self, Tasks};
use crate::util::{Opts, Report, Tier, Violation};
use crate::world::mserver::{ChainState, MServer};
use crate::world::proxy::Ctl;
use crate::world::replicas::{observe, tasks_str, tid, with_replica, Obs};
use crate::world::store::{Kind, Store};
use serde_json::json;
use std::sync::atomic::{AtomicU64, Ordering};
use std::sync::{Arc, Mutex};
use taskchampion::{Operation, TaskData};

#[derive(Clone, Debug, PartialEq, Eq, Hash, serde::Serialize, serde::Deserialize)]
pub enum Change {
    Create(u8),
    Set(u8, String, String),
    Unset(u8, String),
    Delete(u8),
}

#[derive(Clone, Debug, PartialEq, Eq, Hash, serde::Serialize, serde::Deserialize)]
pub enum Act {
    /// commit one change, optionally preceded by an undo point in the same commit
    Commit { undo_point: bool, change: Change },
    /// commit a lone undo point (what `add_undo_point(true)` does); spans without changes arise
    Point,
    /// fetch the undo operations and commit their reversal
    Undo,
    /// fetch the undo operations, commit another change, then commit the stale list
    StaleUndo { change: Change },
    /// fetch the undo operations, sync, then try to reverse them
    UndoAfterSync,
    Sync,
}

#[derive(Clone)]
pub struct State {
    pub store: Store,
    pub chain: ChainState,
    pub obs: Arc<Obs>,
    /// task-set images taken at each undo point still in the unsynchronized list
    pub images: Vec<Tasks>,
    /// the state right after the last sync (or the initial state): what "undo everything" restores
    pub synced_image: Tasks,
}

pub struct UndoSys {
    pub kind: Kind,
    pub populated: bool,
    pub two_tasks: bool,
    pub undos: AtomicU64,
    pub stale: AtomicU64,
    pub after_sync: AtomicU64,
    pub deletes_restored: AtomicU64,
    pub drains: AtomicU64,
}

fn valid(tasks: &Tasks, c: &Change) -> bool {
    match c {
        Change::Create(t) => !tasks.contains_key(&tid(*t)),
        Change::Set(t, p, v) => tasks.get(&tid(*t)).is_some_and(|m| m.get(p) != Some(v)),
        Change::Unset(t, p) => tasks.get(&tid(*t)).is_some_and(|m| m.contains_key(p)),
        Change::Delete(t) => tasks.contains_key(&tid(*t)),
    }
}

/// Commit one change through the real TaskData API.
fn commit_change(store: &mut Store, undo_point: bool, c: &Change) -> Result<(), String> {
    let c = c.clone();
    crate::util::block_on(with_replica(store, Ctl::new(), async |r| {
        let mut ops_ = vec![];
        if undo_point {
            ops_.push(Operation::UndoPoint);
        }
        match &c {
            Change::Create(t) => {
                TaskData::create(tid(*t), &mut ops_);
            }
            Change::Set(t, p, v) => {
                let mut td = r.get_task_data(tid(*t)).await.map_err(|e| e.to_string())?.ok_or("task missing")?;
                td.update(p.clone(), Some(v.clone()), &mut ops_);
            }
            Change::Unset(t, p) => {
                let mut td = r.get_task_data(tid(*t)).await.map_err(|e| e.to_string())?.ok_or("task missing")?;
                td.update(p.clone(), None, &mut ops_);
            }
            Change::Delete(t) => {
                let mut td = r.get_task_data(tid(*t)).await.map_err(|e| e.to_string())?.ok_or("task missing")?;
                td.delete(&mut ops_);
            }
        }
        r.commit_operations(ops_).await.map_err(|e| format!("commit-failed: {e:#}"))
    }))
}

fn obs(store: &mut Store) -> Arc<Obs> {
    Arc::new(crate::util::block_on(observe(store)))
}

fn op_shape(o: &Operation) -> String {
    match o {
        Operation::Create { uuid } => format!("C{}", crate::world::replicas::tname(*uuid)),
        Operation::Delete { uuid, old_task } => {
            let mut v: Vec<_> = old_task.iter().map(|(k, v)| format!("{k}={v}")).collect();
            v.sort();
            format!("D{}{{{}}}", crate::world::replicas::tname(*uuid), v.join(","))
        }
        Operation::Update {
            uuid,
            property,
            old_value,
            value,
            ..
        } => format!("U{}.{}:{:?}->{:?}", crate::world::replicas::tname(*uuid), property, old_value, value),
        Operation::UndoPoint => "P".into(),
    }
}

impl UndoSys {
    pub fn new(kind: Kind, populated: bool, two_tasks: bool) -> Self {
        UndoSys {
            kind,
            populated,
            two_tasks,
            undos: AtomicU64::new(0),
            stale: AtomicU64::new(0),
            after_sync: AtomicU64::new(0),
            deletes_restored: AtomicU64::new(0),
            drains: AtomicU64::new(0),
        }
    }

    fn changes(&self) -> Vec<Change> {
        let mut v = vec![
            Change::Create(1),
            Change::Set(1, "p".into(), "a".into()),
            Change::Set(1, "p".into(), "b".into()),
            Change::Unset(1, "p".into()),
            Change::Delete(1),
        ];
        if self.two_tasks {
            v.push(Change::Create(2));
            v.push(Change::Set(2, "q".into(), "c".into()));
            v.push(Change::Delete(2));
        }
        v
    }

    fn do_sync(&self, s: &mut State) -> Result<(), String> {
        let before = s.obs.clone();
        let st = Arc::new(Mutex::new(std::mem::take(&mut s.chain)));
        let n0 = st.lock().unwrap().versions.len();
        let mut server = MServer::new(st.clone(), 0).boxed();
        let r = crate::util::block_on(with_replica(&mut s.store, Ctl::new(), async |r| {
            r.sync(&mut server, false).await.map_err(|e| format!("sync-failed: {e:#}"))
        }));
        drop(server);
        s.chain = std::mem::take(&mut *st.lock().unwrap());
        r?;
        // what was sent is exactly the documented conversion of the remaining operations:
        // undone operations never reach the chain
        let mut sent = vec![];
        for v in &s.chain.versions[n0..] {
            sent.extend(ops::parse_version_strict(&v.seg).map_err(|e| format!("wire-format: {e}"))?);
        }
        let want: Vec<ops::MOp> = before.unsynced.iter().filter_map(ops::to_sync).collect();
        if sent.len() != want.len() || !sent.iter().zip(&want).all(|(a, b)| ops::mop_eq(a, b)) {
            return Err(format!(
                "undone-ops-sent: the sync sent {:?} but the unsynchronized operations were {:?}",
                super::syncsys::abbrev_ops(&sent),
                super::syncsys::abbrev_ops(&want)
            ));
        }
        s.obs = obs(&mut s.store);
        s.images.clear();
        s.synced_image = s.obs.tasks.clone();
        Ok(())
    }

    fn fetch(&self, s: &mut State) -> Result<Vec<Operation>, String> {
        crate::util::block_on(with_replica(&mut s.store, Ctl::new(), async |r| {
            r.get_undo_operations().await.map_err(|e| format!("get-undo-failed: {e:#}"))
        }))
    }

    fn reverse(&self, s: &mut State, ops_: Vec<Operation>) -> Result<bool, String> {
        crate::util::block_on(with_replica(&mut s.store, Ctl::new(), async |r| {
            r.commit_reversed_operations(ops_).await.map_err(|e| format!("reverse-failed: {e:#}"))
        }))
    }
}

impl Sys for UndoSys {
    type State = State;
    type Action = Act;

    fn init(&self) -> State {
        let mut store = Store::fresh(self.kind);
        let mut chain = ChainState::default();
        if self.populated {
            commit_change(&mut store, false, &Change::Create(1)).unwrap();
            commit_change(&mut store, false, &Change::Set(1, "p".into(), "a".into())).unwrap();
            commit_change(&mut store, false, &Change::Set(1, "z".into(), "keep".into())).unwrap();
            let st = Arc::new(Mutex::new(chain));
            let mut server = MServer::new(st.clone(), 0).boxed();
            crate::util::block_on(with_replica(&mut store, Ctl::new(), async |r| r.sync(&mut server, false).await)).unwrap();
            drop(server);
            chain = std::mem::take(&mut *st.lock().unwrap());
        }
        let o = obs(&mut store);
        State {
            store,
            chain,
            synced_image: o.tasks.clone(),
            obs: o,
            images: vec![],
        }
    }

    fn actions(&self, s: &State, _left: usize) -> Vec<Act> {
        let mut v = vec![];
        let valid_changes: Vec<Change> = self.changes().into_iter().filter(|c| valid(&s.obs.tasks, c)).collect();
        for c in &valid_changes {
            v.push(Act::Commit { undo_point: true, change: c.clone() });
            v.push(Act::Commit { undo_point: false, change: c.clone() });
        }
        let has_changes = s.obs.unsynced.iter().any(|o| !o.is_undo_point());
        let last_is_point = s.obs.unsynced.last().is_some_and(|o| o.is_undo_point());
        if s.obs.unsynced.iter().filter(|o| o.is_undo_point()).count() < 3 {
            v.push(Act::Point);
        }
        if last_is_point {
            // an undo span without changes: the fetched list is a lone undo point
            v.push(Act::Undo);
        }
        if has_changes && !last_is_point {
            v.push(Act::Undo);
            for c in valid_changes.iter().take(2) {
                v.push(Act::StaleUndo { change: c.clone() });
            }
            v.push(Act::UndoAfterSync);
        }
        v.push(Act::Sync);
        v
    }

    fn step(&self, s: &State, a: &Act) -> Result<State, String> {
        let mut n = s.clone();
        match a {
            Act::Commit { undo_point, change } => {
                if *undo_point {
                    n.images.push(n.obs.tasks.clone());
                }
                commit_change(&mut n.store, *undo_point, change)?;
                n.obs = obs(&mut n.store);
            }
            Act::Sync => self.do_sync(&mut n)?,
            Act::Point => {
                n.images.push(n.obs.tasks.clone());
                crate::util::block_on(with_replica(&mut n.store, Ctl::new(), async |r| {
                    r.commit_operations(vec![Operation::UndoPoint]).await.map_err(|e| format!("commit-failed: {e:#}"))
                }))?;
                n.obs = obs(&mut n.store);
            }
            Act::Undo => {
                let fetched = self.fetch(&mut n)?;
                // what the model expects to be fetched: back to and including the last undo point
                let idx = s.obs.unsynced.iter().rposition(|o| o.is_undo_point()).unwrap_or(0);
                if fetched != s.obs.unsynced[idx..] {
                    return Err("undo-fetch: get_undo_operations did not return the operations back to the last undo point".into());
                }
                let fetched_len = fetched.len();
                let had_delete = fetched.iter().any(|o| matches!(o, Operation::Delete { old_task, .. } if !old_task.is_empty()));
                let ok = self.reverse(&mut n, fetched)?;
                n.obs = obs(&mut n.store);
                self.undos.fetch_add(1, Ordering::Relaxed);
                // a span without changes (the fetched list is a lone undo point) is not a "sequence of
                // changes": what the call reports is not asserted for it, what it does is
                let lone_point = fetched_len == 1 && s.obs.unsynced.last().is_some_and(|o| o.is_undo_point());
                if !ok && !lone_point {
                    return Err("undo-refused: reversing the most recent unsynchronized operations reported failure".into());
                }
                let want = if s.obs.unsynced.iter().any(|o| o.is_undo_point()) {
                    n.images.pop().expect("image for undo point")
                } else {
                    s.synced_image.clone()
                };
                if n.obs.tasks != want {
                    return Err(format!(
                        "undo-state: after undo the tasks are {} but before the undone changes they were {}",
                        tasks_str(&n.obs.tasks),
                        tasks_str(&want)
                    ));
                }
                if n.obs.unsynced != s.obs.unsynced[..idx] {
                    return Err(format!(
                        "undo-oplog: after undo the unsynchronized list is [{}] but should be [{}]",
                        n.obs.unsynced.iter().map(op_shape).collect::<Vec<_>>().join(";"),
                        s.obs.unsynced[..idx].iter().map(op_shape).collect::<Vec<_>>().join(";")
                    ));
                }
                if had_delete {
                    self.deletes_restored.fetch_add(1, Ordering::Relaxed);
                }
            }
            Act::StaleUndo { change } => {
                let fetched = self.fetch(&mut n)?;
                commit_change(&mut n.store, false, change)?;
                let mid = obs(&mut n.store);
                let ok = self.reverse(&mut n, fetched)?;
                n.obs = obs(&mut n.store);
                self.stale.fetch_add(1, Ordering::Relaxed);
                if ok {
                    return Err("stale-undo-accepted: reversing operations that are no longer the most recent ones reported success".into());
                }
                if *n.obs != *mid {
                    return Err(format!("stale-undo-changed: a refused undo changed the replica from {} to {}", mid.canon(), n.obs.canon()));
                }
            }
            Act::UndoAfterSync => {
                let fetched = self.fetch(&mut n)?;
                self.do_sync(&mut n)?;
                let mid = n.obs.clone();
                let again = self.fetch(&mut n)?;
                if !again.is_empty() {
                    return Err("undo-after-sync: synchronized operations are still offered for undo".into());
                }
                let ok = self.reverse(&mut n, fetched)?;
                n.obs = obs(&mut n.store);
                self.after_sync.fetch_add(1, Ordering::Relaxed);
                if ok {
                    return Err("undo-after-sync: reversing already synchronized operations reported success".into());
                }
                if *n.obs != *mid {
                    return Err("undo-after-sync: a refused undo changed the replica".into());
                }
            }
        }
        Ok(n)
    }

    fn canon(&self, s: &State) -> u128 {
        let ops_: Vec<String> = s.obs.unsynced.iter().map(op_shape).collect();
        crate::util::h128(&(format!("{:?}", s.obs.tasks), ops_, s.chain.versions.len(), format!("{:?}", s.images)))
    }

    fn check(&self, s: &State, _trace: &[Act]) -> Result<bool, String> {
        // "repeated undo down to the last sync": from every state, fetching and reversing again and
        // again withdraws every unsynchronized operation, span by span, and ends in the state of the
        // last sync
        if !s.obs.unsynced.is_empty() {
            let mut n = s.clone();
            let mut left = n.obs.unsynced.len();
            for _ in 0..=s.obs.unsynced.len() {
                let fetched = self.fetch(&mut n)?;
                if fetched.is_empty() {
                    break;
                }
                self.reverse(&mut n, fetched)?;
                let now = obs(&mut n.store).unsynced.len();
                if now >= left {
                    return Err(format!(
                        "undo-stuck: repeated undo makes no progress: {} unsynchronized operations before and after reversing the fetched list [{}]",
                        left,
                        s.obs.unsynced.iter().map(op_shape).collect::<Vec<_>>().join(";")
                    ));
                }
                left = now;
            }
            let end = obs(&mut n.store);
            if !end.unsynced.is_empty() || end.tasks != s.synced_image {
                return Err(format!(
                    "undo-drain: repeated undo down to the last sync ends with {} unsynchronized operations and tasks {} but the last synchronized state is {}",
                    end.unsynced.len(),
                    tasks_str(&end.tasks),
                    tasks_str(&s.synced_image)
                ));
            }
            self.drains.fetch_add(1, Ordering::Relaxed);
        }
        // non-trivial: at least one undo point with changes after it
        Ok(s.obs.unsynced.iter().any(|o| o.is_undo_point()) && !s.obs.unsynced.last().unwrap().is_undo_point())
    }
}

pub fn run(opts: &Opts) -> i32 {
    let rep = Report::new("C07", "model_checking", opts);
    rep.set("exhaustive", true);
    rep.set("rule", "histories over {commit one valid change made with the real TaskData API, with or without a leading undo point; a commit of a lone undo point (spans without changes, consecutive undo points); undo = get_undo_operations + commit_reversed_operations; stale undo (fetch, commit something, reverse the stale list); fetch + sync + reverse; sync} from an empty and from a populated synced replica, on the in-memory and the SQLite storage; plus one undo span of 1200 (thorough 6000) operations over two commits on both storages; oracle: on every state, repeated undo (fetch + reverse until nothing is offered) must make progress every time and end with no unsynchronized operation and the tasks of the last sync; harness-kept image of the task set at every undo point, exact unsynchronized list, result flags, and the versions a harness server receives at the next sync = documented conversion of the remaining operations; non-trivial = states with an undo point followed by changes");
    rep.assume("for a span without changes (the fetched list is a lone undo point) the reported flag is not asserted (not a 'sequence of changes'); that the undo point is withdrawn and nothing else changes is");
    let q = opts.tier == Tier::Quick;
    let spaces: Vec<(&str, UndoSys, usize)> = vec![
        ("mem-empty", UndoSys::new(Kind::Mem, false, true), if q { 6 } else { 8 }),
        ("mem-populated", UndoSys::new(Kind::Mem, true, false), if q { 7 } else { 9 }),
        ("sqlite-populated", UndoSys::new(Kind::Sqlite, true, false), if q { 4 } else { 6 }),
        ("sqlite-empty", UndoSys::new(Kind::Sqlite, false, false), if q { 3 } else { 5 }),
    ];
    let n = spaces.len();
    for (i, (name, sys, depth)) in spaces.into_iter().enumerate() {
        let remaining = (opts.budget_s - rep.elapsed()).max(3.0);
        let deadline = std::time::Instant::now() + std::time::Duration::from_secs_f64(remaining / (n - i) as f64);
        let cfg = StateCfg { max_depth: depth, deadline: Some(deadline), max_found: 6, first_depth: 1, tolerate: vec![] };
        let (st, found, samples) = explore(&sys, &cfg);
        rep.add("states", st.states);
        rep.add("transitions", st.transitions);
        rep.add("traces_validated_against_impl", st.transitions);
        rep.add("distinct_nontrivial", st.nontrivial);
        rep.add("undos_checked", sys.undos.load(Ordering::Relaxed));
        rep.add("stale_undos_checked", sys.stale.load(Ordering::Relaxed));
        rep.add("undo_after_sync_checked", sys.after_sync.load(Ordering::Relaxed));
        rep.add("undos_restoring_a_deleted_populated_task", sys.deletes_restored.load(Ordering::Relaxed));
        rep.add("repeated_undo_drains_checked", sys.drains.load(Ordering::Relaxed));
        rep.set(&format!("space_{name}"), json!({"depth_requested": depth, "depth_completed": st.depth_completed, "states": st.states, "transitions": st.transitions, "capped": st.capped}));
        if st.capped {
            rep.set("exhaustive", false);
        }
        println!("[C07] {name}: depth {} of {depth}, {} states, {} transitions, capped={} ({:.1}s)", st.depth_completed, st.states, st.transitions, st.capped, rep.elapsed());
        if let Some(t) = samples.first() {
            rep.sample(json!({"space": name, "history": t}));
        }
        for f in found {
            let note = crate::util::confirm_or_exit("C07", &f.what, || replay_trace(&sys, &f.trace, false).err());
            rep.violation(Violation::new(
                format!("{}:{name}", f.what.split(':').next().unwrap_or("")),
                format!("{}{note}", f.what),
                json!({"kind": "c07-trace", "space": name, "storage": sys.kind, "populated": sys.populated, "two_tasks": sys.two_tasks, "trace": f.trace, "observed": f.what}),
            ));
        }
    }
    // one very large undo span: an undo point followed by 1200 (thorough 6000) changes in one
    // commit and a few more in a second one, preceded by an older span that must survive
    for kind in [Kind::Mem, Kind::Sqlite] {
        let n = if q { 1200 } else { 6000 };
        match large_span(kind, n) {
            Ok(()) => rep.add("large_spans_undone", 1),
            Err(e) => rep.violation(Violation::new(format!("{}:large-span:{kind:?}", e.split(':').next().unwrap_or("")), e, json!({"kind": "c07-large-span", "storage": kind, "n": n}))),
        }
    }
    println!("[C07] large undo spans undone and compared ({:.1}s)", rep.elapsed());
    rep.finish()
}

/// An older span (kept), then UndoPoint + n updates in one commit + 3 changes in another; undo
/// must hand out exactly the younger span, remove it, and restore the task set of the undo point.
fn large_span(kind: Kind, n: usize) -> Result<(), String> {
    use crate::world::replicas::{tid, with_replica};
    let mut st = Store::fresh(kind);
    let ts = super::syncworld::ts(3);
    let upd = |t: u8, p: &str, old: Option<&str>, v: Option<&str>| Operation::Update { uuid: tid(t), property: p.into(), old_value: old.map(|s| s.to_string()), value: v.map(|s| s.to_string()), timestamp: ts };
    let older = vec![Operation::UndoPoint, Operation::Create { uuid: tid(1) }, upd(1, "p", None, Some("kept"))];
    let mut young = vec![Operation::UndoPoint, Operation::Create { uuid: tid(2) }];
    let mut prev: Option<String> = None;
    for i in 0..n {
        let v = format!("v{i}");
        young.push(upd(2, "q", prev.as_deref(), Some(&v)));
        prev = Some(v);
    }
    let tail = vec![upd(1, "p", Some("kept"), Some("changed")), upd(1, "r", None, Some("x")), Operation::Delete { uuid: tid(2), old_task: [("q".to_string(), prev.clone().unwrap())].into_iter().collect() }];
    let (o1, o2, o3) = (older.clone(), young.clone(), tail.clone());
    crate::util::block_on(with_replica(&mut st, crate::world::proxy::Ctl::new(), async |r| {
        r.commit_operations(o1).await.map_err(|e| format!("commit-failed: {e:#}"))?;
        r.commit_operations(o2).await.map_err(|e| format!("commit-failed: {e:#}"))?;
        r.commit_operations(o3).await.map_err(|e| format!("commit-failed: {e:#}"))
    }))?;
    let before = obs(&mut st);
    let want_ops: Vec<Operation> = young.iter().chain(tail.iter()).cloned().collect();
    if before.unsynced.len() != older.len() + want_ops.len() {
        return Err(format!("oplog: {} operations stored, {} committed", before.unsynced.len(), older.len() + want_ops.len()));
    }
    let (got, ok) = crate::util::block_on(with_replica(&mut st, crate::world::proxy::Ctl::new(), async |r| {
        let got = r.get_undo_operations().await.map_err(|e| format!("undo-failed: {e:#}"))?;
        let ok = r.commit_reversed_operations(got.clone()).await.map_err(|e| format!("undo-failed: {e:#}"))?;
        Ok::<_, String>((got, ok))
    }))?;
    if got != want_ops {
        return Err(format!("undo-list: get_undo_operations returned {} operations, the span since the last undo point has {} (or their order differs)", got.len(), want_ops.len()));
    }
    if !ok {
        return Err("undo-refused: commit_reversed_operations returned false for the list just fetched".into());
    }
    st.reopen();
    let after = obs(&mut st);
    if after.unsynced != older {
        return Err(format!("undo-oplog: after undoing a span of {} operations the unsynchronized list has {} operations, the older span has {}", want_ops.len(), after.unsynced.len(), older.len()));
    }
    let want_tasks: Tasks = [(tid(1), [("p".to_string(), "kept".to_string())].into_iter().collect())].into_iter().collect();
    if after.tasks != want_tasks {
        return Err(format!("undo-state: after the undo the tasks are {} but at the undo point they were {}", crate::world::replicas::tasks_str(&after.tasks), crate::world::replicas::tasks_str(&want_tasks)));
    }
    Ok(())
}

pub fn replay_trace(sys: &UndoSys, tr: &[Act], verbose: bool) -> Result<(), String> {
    let mut s = sys.init();
    for a in tr {
        if verbose {
            println!("{a:?}");
        }
        s = sys.step(&s, a)?;
        if verbose {
            println!("    {}", s.obs.canon());
        }
    }
    // the state oracle (repeated undo down to the last sync) of the final state
    sys.check(&s, tr).map(|_| ())
}

pub fn replay(case: &serde_json::Value) -> Result<(), String> {
    let kind: Kind = serde_json::from_value(case["storage"].clone()).map_err(|e| e.to_string())?;
    let sys = UndoSys::new(kind, case["populated"].as_bool().unwrap_or(false), case["two_tasks"].as_bool().unwrap_or(false));
    let tr: Vec<Act> = serde_json::from_value(case["trace"].clone()).map_err(|e| e.to_string())?;
    replay_trace(&sys, &tr, true)
}
