//! C10 – object-store cleanup never deletes history that is still needed (E-SCHED + truncation).

use crate::explore::sched::{explore, Choice, ExploreCfg, GateH, Go, Outcome, Scenario, TaskFut};
use crate::util::{Opts, Report, Tier, Violation};
use crate::world::cloud::*;
use rayon::prelude::*;
use serde_json::json;
use std::collections::BTreeMap;
use std::sync::Arc;
use taskchampion::server::verif::{Gate, MemStore};
use taskchampion::server::{AddVersionResult, GetVersionResult, Server};
use uuid::Uuid;

#[derive(Clone, Copy, Debug, PartialEq, Eq, serde::Serialize, serde::Deserialize)]
pub enum Party {
    /// add a version (retry once), with the cleanup draw forced: the real add_version ->
    /// maybe_cleanup path
    AddCleanup,
    /// add a version (retry once), never cleaning up
    Add,
    /// add a version and store a snapshot for it
    AddSnap,
    /// call cleanup directly (only on layouts with a latest version)
    Cleanup,
    /// a reader walking the chain from the first version while the others work
    Walk,
}

#[derive(Clone, Copy, Debug, PartialEq, Eq, serde::Serialize, serde::Deserialize)]
pub enum Orphan {
    None,
    ChildOfLatest,
    ChildOfFirst,
}

#[derive(Clone, Debug, serde::Serialize, serde::Deserialize)]
pub struct Layout10 {
    pub len: usize,
    /// bit k set: a snapshot exists for version k
    pub snap_mask: u32,
    /// the first `old` versions are older than the retention age
    pub old: usize,
    pub orphan: Orphan,
    pub page_size: usize,
}

#[derive(Clone, Debug, serde::Serialize, serde::Deserialize)]
pub struct Sc10 {
    pub lay: Layout10,
    pub parties: Vec<Party>,
    /// explore cleanups that stop after any of their deletions
    pub truncate: bool,
    /// new version objects are ordered before in-flight listings (missed) instead of after (seen)
    pub front_puts: bool,
    #[serde(skip)]
    pub proto: std::sync::OnceLock<(MemStore, Vec<Uuid>)>,
}

#[derive(Clone, Debug)]
pub enum Ev10 {
    Added { parent: Uuid, id: Uuid, payload: Vec<u8> },
    Rejected,
    SnapAdded { v: Uuid },
    Got { parent: Uuid, id: Uuid, payload: Vec<u8> },
    CleanupDone(bool),
    Failed(String),
}

pub struct Ctx10 {
    store: MemStore,
    base: Vec<Uuid>,
    before: Vec<(String, u64)>,
    /// every value the 'latest' object took during the run, in order (observed after each step)
    latest_history: std::sync::Mutex<Vec<Uuid>>,
}

impl Sc10 {
    pub fn new(lay: Layout10, parties: Vec<Party>, truncate: bool, front_puts: bool) -> Self {
        Sc10 { lay, parties, truncate, front_puts, proto: Default::default() }
    }

    fn proto(&self) -> &(MemStore, Vec<Uuid>) {
        self.proto.get_or_init(|| {
            let store = new_store(self.lay.page_size);
            let base = build_chain(&store, self.lay.len);
            let now = real_now();
            let mut parent = Uuid::nil();
            for (k, id) in base.iter().enumerate() {
                if k < self.lay.old {
                    store.raw_set_creation(&version_name(parent, *id), now - 200 * DAY);
                }
                parent = *id;
            }
            crate::util::block_on(async {
                let mut c = client(&store, 97, None, 255).await;
                for (k, id) in base.iter().enumerate() {
                    if self.lay.snap_mask & (1 << k) != 0 {
                        c.add_snapshot(*id, format!("snapshot-at-{k}").into_bytes()).await.expect("setup snapshot");
                    }
                }
            });
            let orphan_parent = match self.lay.orphan {
                Orphan::None => None,
                Orphan::ChildOfLatest => Some(base.last().copied().unwrap_or(Uuid::nil())),
                Orphan::ChildOfFirst => base.first().copied(),
            };
            if let Some(p) = orphan_parent {
                let id = Uuid::from_u128(0xDEAD_0000_0000_0000_0000_0000_0000_0002);
                let sealed = taskchampion::server::verif::seal(b"0123456789abcdef", SECRET, id, b"orphan".to_vec()).expect("seal");
                store.raw_put(&version_name(p, id), sealed, now - 300 * DAY);
            }
            (store, base)
        })
    }
}

async fn add_with_retry(c: &mut dyn Server, head: Uuid, payload: Vec<u8>, log: &mut Vec<Ev10>) -> Option<Uuid> {
    let mut parent = head;
    for _attempt in 0..2 {
        match c.add_version(parent, payload.clone()).await {
            Ok((AddVersionResult::Ok(id), _)) => {
                log.push(Ev10::Added { parent, id, payload });
                return Some(id);
            }
            Ok((AddVersionResult::ExpectedParentVersion(_), _)) => {
                log.push(Ev10::Rejected);
                // pull forward like a replica would
                for _ in 0..8 {
                    match c.get_child_version(parent).await {
                        Ok(GetVersionResult::Version { version_id, .. }) => parent = version_id,
                        Ok(GetVersionResult::NoSuchVersion) => break,
                        Err(e) => {
                            log.push(Ev10::Failed(format!("get_child_version: {e:#}")));
                            return None;
                        }
                    }
                }
            }
            Err(e) => {
                log.push(Ev10::Failed(format!("add_version: {e:#}")));
                return None;
            }
        }
    }
    None
}

async fn run_party(store: MemStore, who: usize, p: Party, head: Uuid, gate: Arc<dyn Gate>) -> Vec<Ev10> {
    let mut c = client(&store, who, None, 255).await;
    if p == Party::AddCleanup {
        // first draw (maybe_cleanup) forced to 0 = run the cleanup; later draws 255
        c.set_draws(vec![0], Some(255));
    }
    c.set_gate(Some(gate));
    let mut log = vec![];
    let payload = format!("party{who}").into_bytes();
    match p {
        Party::Add | Party::AddCleanup => {
            add_with_retry(&mut c, head, payload, &mut log).await;
        }
        Party::AddSnap => {
            if let Some(id) = add_with_retry(&mut c, head, payload, &mut log).await {
                match c.add_snapshot(id, format!("snapshot-by-{who}").into_bytes()).await {
                    Ok(()) => log.push(Ev10::SnapAdded { v: id }),
                    Err(e) => log.push(Ev10::Failed(format!("add_snapshot: {e:#}"))),
                }
            }
        }
        Party::Cleanup => {
            let r = c.cleanup().await;
            log.push(Ev10::CleanupDone(r.is_ok()));
        }
        Party::Walk => {
            let mut cur = Uuid::nil();
            for _ in 0..8 {
                match c.get_child_version(cur).await {
                    Ok(GetVersionResult::Version { version_id, parent_version_id, history_segment }) => {
                        log.push(Ev10::Got { parent: parent_version_id, id: version_id, payload: history_segment });
                        cur = version_id;
                    }
                    Ok(GetVersionResult::NoSuchVersion) => break,
                    Err(e) => {
                        log.push(Ev10::Failed(format!("get_child_version: {e:#}")));
                        break;
                    }
                }
            }
        }
    }
    log
}

impl Scenario for Sc10 {
    type Ctx = Ctx10;
    type Out = Vec<Ev10>;

    fn n_tasks(&self) -> usize {
        self.parties.len()
    }

    fn build(&self, gates: Vec<GateH>) -> (Ctx10, Vec<TaskFut<Vec<Ev10>>>) {
        let (proto, base) = self.proto();
        let store = proto.fork();
        taskchampion::server::verif::set_version_id_counter(Some(1000));
        let head = base.last().copied().unwrap_or(Uuid::nil());
        let before: Vec<(String, u64)> = store.dump().into_iter().map(|(n, _, c, _)| (n, c)).collect();
        let mut futs: Vec<TaskFut<Vec<Ev10>>> = vec![];
        for (i, p) in self.parties.iter().enumerate() {
            let front = self.front_puts && matches!(p, Party::Add | Party::AddSnap);
            let gate: Arc<dyn Gate> = Arc::new(SchedGate { gate: gates[i].clone(), front_puts: front });
            futs.push(Box::pin(run_party(store.clone(), i, *p, head, gate)));
        }
        (Ctx10 { store, base: base.clone(), before, latest_history: Default::default() }, futs)
    }

    fn state_hash(&self, ctx: &Ctx10) -> u64 {
        store_hash(&ctx.store)
    }

    fn response_hash(&self, ctx: &Ctx10, _task: usize, label: &str) -> u64 {
        response_hash(&ctx.store, label)
    }

    fn after_step(&self, ctx: &Ctx10, _trace: &[(Choice, String)]) -> Result<(), String> {
        if let Some(l) = ctx.store.raw_get("latest").and_then(|v| String::from_utf8(v).ok()).and_then(|s| Uuid::parse_str(&s).ok()) {
            let mut h = ctx.latest_history.lock().unwrap();
            if h.last() != Some(&l) && !ctx.base.contains(&l) {
                if h.contains(&l) {
                    return Err(format!("latest-went-back: 'latest' returned to an earlier value {l}"));
                }
                h.push(l);
            }
        }
        Ok(())
    }

    fn choices(&self, _ctx: &Ctx10, parked: &[(usize, String)], last: Option<usize>) -> Vec<Choice> {
        let mut v: Vec<Choice> = vec![];
        if let Some(l) = last {
            if parked.iter().any(|(i, _)| *i == l) {
                v.push(Choice::run(l));
            }
        }
        for (i, _) in parked {
            if Some(*i) != last {
                v.push(Choice::run(*i));
            }
        }
        if self.truncate {
            // a cleanup may stop (process ends) right before any of its deletions but the first
            for (i, label) in parked {
                let cleaning = matches!(self.parties[*i], Party::Cleanup | Party::AddCleanup);
                if cleaning && label.starts_with("del ") {
                    v.push(Choice { task: *i, go: Go::Proceed, stop: true });
                }
                // a page of a listing may fail (the store answers with an error once): whatever the
                // cleanup does with a listing it could not finish, it must not delete needed history
                if cleaning && label.starts_with("list ") {
                    v.push(Choice { task: *i, go: Go::FailBefore, stop: false });
                }
            }
        }
        v
    }

    fn check(&self, ctx: Ctx10, results: Vec<Option<Vec<Ev10>>>, stopped: &[bool], _trace: &[(Choice, String)]) -> Result<Outcome, String> {
        // the true chain: base plus acknowledged versions linked by their parents
        let mut payloads: BTreeMap<Uuid, Vec<u8>> = BTreeMap::new();
        let mut child_of: BTreeMap<Uuid, Uuid> = BTreeMap::new();
        let mut parent = Uuid::nil();
        for (k, id) in ctx.base.iter().enumerate() {
            payloads.insert(*id, format!("base-{k}").into_bytes());
            child_of.insert(parent, *id);
            parent = *id;
        }
        let mut rejected = 0;
        let mut new_snaps = vec![];
        let mut served: Vec<(Uuid, Uuid, Vec<u8>)> = vec![];
        for (i, r) in results.into_iter().enumerate() {
            let Some(log) = r else {
                if stopped[i] {
                    continue;
                }
                return Err(format!("deadlock: party {i} did not finish"));
            };
            for e in log {
                match e {
                    Ev10::Added { parent, id, payload } => {
                        if child_of.insert(parent, id).is_some() {
                            return Err(format!("two-children: {parent} got two acknowledged children"));
                        }
                        payloads.insert(id, payload);
                    }
                    Ev10::Rejected => rejected += 1,
                    Ev10::SnapAdded { v } => new_snaps.push(v),
                    Ev10::Got { parent, id, payload } => served.push((parent, id, payload)),
                    Ev10::CleanupDone(_) | Ev10::Failed(_) => {}
                }
            }
        }
        // the committed chain: the base followed by every value 'latest' took (a version is
        // committed by the compare-and-swap even if its client stopped before being told)
        let mut chain: Vec<Uuid> = ctx.base.clone();
        chain.extend(ctx.latest_history.lock().unwrap().iter().cloned());
        {
            // every acknowledged version must be a committed one, with the acknowledged parent
            let mut prev = Uuid::nil();
            let mut links = std::collections::BTreeSet::new();
            for c in &chain {
                links.insert((prev, *c));
                prev = *c;
            }
            for (p, c) in &child_of {
                if !links.contains(&(*p, *c)) {
                    return Err(format!("ack-not-committed: version {c} (child of {p}) was acknowledged but 'latest' never moved from {p} to it"));
                }
            }
        }
        // whatever a concurrent reader was served is on the committed chain, with the right bytes
        {
            let mut prev = Uuid::nil();
            let mut links = std::collections::BTreeSet::new();
            for c in &chain {
                links.insert((prev, *c));
                prev = *c;
            }
            for (p, c, bytes) in &served {
                if !links.contains(&(*p, *c)) {
                    return Err(format!("off-chain-served: a reader walking during the cleanup was served {c} (child of {p}), which is not on the chain"));
                }
                if payloads.get(c).is_some_and(|b| b != bytes) {
                    return Err(format!("wrong-bytes: a reader walking during the cleanup received {c} with different bytes than submitted"));
                }
            }
        }
        let lay = layout(&ctx.store);
        if lay.latest != chain.last().copied() {
            return Err(format!("latest-wrong: 'latest' names {:?} but the last acknowledged version is {:?}", lay.latest, chain.last()));
        }
        let pos = |v: &Uuid| chain.iter().position(|c| c == v);
        // what a fresh client gets
        let (snap, retr): (Option<(Uuid, Vec<u8>)>, Vec<bool>) = crate::util::block_on(async {
            let mut c = client(&ctx.store, 96, None, 255).await;
            let snap = c.get_snapshot().await.map_err(|e| format!("fresh-client: get_snapshot failed: {e:#}"))?;
            let mut retr = vec![];
            let mut parent = Uuid::nil();
            for id in &chain {
                let r = c.get_child_version(parent).await.map_err(|e| format!("fresh-client: get_child_version failed: {e:#}"))?;
                let ok = match r {
                    GetVersionResult::Version { version_id, history_segment, .. } => {
                        if version_id != *id {
                            return Err(format!("wrong-child: the child of {parent} is served as {version_id} but the acknowledged child is {id}"));
                        }
                        if payloads.get(id).is_some_and(|p| p != &history_segment) {
                            return Err(format!("wrong-bytes: version {id} is served with different bytes than submitted"));
                        }
                        true
                    }
                    GetVersionResult::NoSuchVersion => false,
                };
                retr.push(ok);
                parent = *id;
            }
            Ok::<_, String>((snap, retr))
        })?;
        // retrievable versions form a suffix of the chain
        if let Some(first_ok) = retr.iter().position(|b| *b) {
            if retr[first_ok..].iter().any(|b| !*b) {
                return Err(format!("hole: retrievability along the chain is {retr:?}: a version after a retrievable one is gone"));
            }
        }
        let start = match &snap {
            Some((v, bytes)) => {
                let Some(p) = pos(v) else {
                    return Err(format!("snapshot-unknown: the served snapshot is for {v}, which is not on the chain"));
                };
                if !(bytes.starts_with(b"snapshot-at-") || bytes.starts_with(b"snapshot-by-")) {
                    return Err("snapshot-corrupt: served snapshot has foreign content".into());
                }
                p + 1
            }
            None => {
                let had = self.lay.snap_mask != 0 || !new_snaps.is_empty();
                if had {
                    return Err("snapshot-lost: snapshots existed or were acknowledged but none is served any more".into());
                }
                0
            }
        };
        // from the retained snapshot (or the very first version) onward everything is retrievable
        if let Some(k) = (start..chain.len()).find(|k| !retr[*k]) {
            return Err(format!(
                "needed-version-deleted: version #{k} of {} on the chain is not retrievable although the newest served snapshot is at position {:?}; retrievable: {retr:?}",
                chain.len(),
                start.checked_sub(1)
            ));
        }
        // only old versions may ever be deleted from the chain
        let now = real_now();
        let created: BTreeMap<String, u64> = ctx.before.iter().cloned().collect();
        let mut parent = Uuid::nil();
        for (k, id) in chain.iter().enumerate() {
            let name = version_name(parent, *id);
            let present = ctx.store.raw_get(&name).is_some();
            if !present {
                let age_ok = created.get(&name).is_some_and(|c| *c < now - 180 * DAY);
                if !age_ok {
                    return Err(format!("young-version-deleted: version #{k} is younger than the retention age but its object was deleted"));
                }
            }
            parent = *id;
        }
        let deleted: Vec<String> = created.keys().filter(|n| ctx.store.raw_get(n).is_none()).map(|n| short_kind(n)).collect();
        Ok(Outcome {
            outcome_hash: crate::util::h64(&(retr.clone(), start, deleted.clone(), chain.len(), rejected)),
            nontrivial: !deleted.is_empty() || rejected > 0,
        })
    }
}

fn short_kind(n: &str) -> String {
    n.chars().take(2).collect()
}

fn layouts(max_len: usize, page_size: usize) -> Vec<Layout10> {
    let mut v = vec![];
    for len in 0..=max_len {
        for snap_mask in 0..(1u32 << len) {
            for old in 0..=len {
                for orphan in [Orphan::None, Orphan::ChildOfLatest, Orphan::ChildOfFirst] {
                    if orphan == Orphan::ChildOfFirst && len < 2 {
                        continue;
                    }
                    v.push(Layout10 { len, snap_mask, old, orphan, page_size });
                }
            }
        }
    }
    v
}

pub fn run(opts: &Opts) -> i32 {
    let rep = Report::new("C10", "model_checking", opts);
    rep.set("exhaustive", true);
    rep.set("rule", "start layouts = every chain length 0..3 (thorough 4) x every subset of snapshot positions x every age pattern old^i new^j x {no orphan, orphan child of latest, orphan child of the first version}; parties = {add_version whose cleanup draw is forced (the real maybe_cleanup path), explicit cleanup, another client's add_version with retry, add_version + add_snapshot}; every interleaving at single request / list-page granularity within preemption bound 2 (thorough 3), plus a cleanup that stops before any of its deletions; oracle in consequence form from a fresh client: served snapshot is on the chain, every version from it (or from the first version) onward is retrievable intact, retrievable versions form a suffix, only versions older than the retention age are ever missing; non-trivial = executions in which something was deleted or a version was rejected");
    rep.assume("a cleanup is entered as in production (after the same client's successful compare-and-swap, or explicitly only when a latest exists); snapshots are only stored for the version the party itself just added; ages are monotone along the chain");
    let q = opts.tier == Tier::Quick;
    let deadline = std::time::Instant::now() + std::time::Duration::from_secs_f64(opts.budget_s);
    let bound = if q { 2 } else { 3 };
    let mut scs: Vec<Sc10> = vec![];
    let combos: Vec<Vec<Party>> = vec![
        vec![Party::AddCleanup, Party::Add],
        vec![Party::Cleanup, Party::Add],
        vec![Party::Cleanup, Party::AddSnap],
        vec![Party::AddCleanup, Party::AddSnap],
        vec![Party::Cleanup, Party::Cleanup],
        vec![Party::AddCleanup, Party::AddCleanup],
        vec![Party::Cleanup, Party::Walk],
        vec![Party::AddCleanup, Party::Walk],
    ];
    for lay in layouts(if q { 3 } else { 4 }, 1) {
        for parties in &combos {
            if parties.contains(&Party::Cleanup) && lay.len == 0 {
                continue;
            }
            scs.push(Sc10::new(lay.clone(), parties.clone(), true, false));
        }
    }
    // two other clients: both of their versions can be committed between two requests of a cleanup
    for lay in layouts(2, 1) {
        if lay.orphan != Orphan::None && q {
            continue;
        }
        if lay.len > 0 {
            scs.push(Sc10::new(lay.clone(), vec![Party::Cleanup, Party::Add, Party::Add], false, false));
        }
        scs.push(Sc10::new(lay, vec![Party::AddCleanup, Party::Add, Party::Add], false, false));
    }
    if !q {
        for lay in layouts(3, 2) {
            for parties in &combos[..4] {
                if parties.contains(&Party::Cleanup) && lay.len == 0 {
                    continue;
                }
                scs.push(Sc10::new(lay.clone(), parties.clone(), true, true));
            }
        }
        for lay in layouts(2, 1) {
            scs.push(Sc10::new(lay.clone(), vec![Party::AddCleanup, Party::Add, Party::AddSnap], false, false));
            if lay.len > 0 {
                scs.push(Sc10::new(lay, vec![Party::Cleanup, Party::AddSnap, Party::Add], false, false));
            }
        }
    }
    let selfchecks = std::sync::atomic::AtomicU64::new(0);
    let selfcheck_skips = std::sync::atomic::AtomicU64::new(0);
    let results: Vec<_> = scs
        .par_iter()
        .enumerate()
        .map(|(idx, sc)| {
            // thorough: small layouts are explored without any preemption bound (state-key pruning
            // makes that finite and small), the others with bound 3
            let bound = if !q && sc.lay.len <= 2 && sc.parties.len() <= 2 { usize::MAX } else { bound };
            let bound = match std::env::var("TCMC_BOUND").ok().as_deref() { Some("max") => usize::MAX, Some(n) => n.parse().unwrap_or(bound), None => bound };
            let cfg = ExploreCfg { bound, max_schedules: 5_000_000, deadline: Some(deadline), seen: Some(Default::default()) };
            let r = explore(sc, &cfg);
            // pruning self-check on every 16th (thorough: 4th) scenario: same outcomes as unpruned
            let (every, cap) = if q { (16, 4_000) } else { (4, 100_000) };
            if idx % every == 0 && r.1.is_empty() && !r.0.capped {
                match crate::explore::sched::pruning_selfcheck(sc, bound, cap) {
                    Some(Ok(_)) => { selfchecks.fetch_add(1, std::sync::atomic::Ordering::Relaxed); }
                    Some(Err(e)) => {
                        eprintln!("MACHINERY ERROR: C10 state-key pruning is unsound on {:?} {:?}: {e}", sc.lay, sc.parties);
                        std::process::exit(2);
                    }
                    None => { selfcheck_skips.fetch_add(1, std::sync::atomic::Ordering::Relaxed); }
                }
            }
            r
        })
        .collect();
    rep.add("pruning_selfcheck_scenarios_equal_to_unpruned", selfchecks.into_inner());
    rep.add("pruning_selfcheck_scenarios_skipped_unpruned_too_large", selfcheck_skips.into_inner());
    let (mut schedules, mut steps, mut nontrivial, mut outcomes, mut capped) = (0u64, 0u64, 0u64, 0u64, 0u64);
    for (i, (st, fails)) in results.into_iter().enumerate() {
        let sc = &scs[i];
        schedules += st.schedules;
        steps += st.steps;
        nontrivial += st.nontrivial_outcomes.len() as u64;
        outcomes += st.outcomes.len() as u64;
        if st.capped {
            capped += 1;
        }
        if i % 97 == 0 {
            if let Some(t) = st.sample_traces.first() {
                rep.sample(json!({"layout": sc.lay, "parties": sc.parties, "schedule": t.iter().map(|(c, l)| format!("party{}{}: {}", c.task, if c.stop { " STOPS at" } else { "" }, l)).collect::<Vec<_>>()}));
            }
        }
        for f in fails.into_iter().take(1) {
            let choices: Vec<Choice> = f.trace.iter().map(|(c, _)| *c).collect();
            let cls = |r: &Result<Option<String>, String>| r.clone().ok().flatten().map(|s| s.split(':').next().unwrap_or("").to_string());
            let r1 = crate::explore::sched::replay(sc, &choices).map(|(_, r)| r.err());
            let r2 = crate::explore::sched::replay(sc, &choices).map(|(_, r)| r.err());
            if cls(&r1) != cls(&r2) || cls(&r1).is_none() {
                eprintln!("MACHINERY ERROR: C10 violation does not replay deterministically: {r1:?} vs {r2:?}");
                std::process::exit(2);
            }
            let class = f.what.split(':').next().unwrap_or("").to_string();
            let uses_stop = f.trace.iter().any(|(c, _)| c.stop);
            let uses_fault = f.trace.iter().any(|(c, _)| c.go != Go::Proceed);
            rep.violation(Violation::new(
                format!("{class}:{:?}{}", sc.parties, if uses_stop { ":truncated" } else if uses_fault { ":failed-list-page" } else { "" }),
                f.what.clone(),
                json!({"kind": "c10-schedule", "layout": sc.lay, "parties": sc.parties, "truncate": sc.truncate, "front_puts": sc.front_puts,
                       "schedule": super::c02::trace_to_json(&f.trace), "observed": f.what}),
            ));
        }
    }
    if capped > 0 {
        rep.set("exhaustive", false);
        rep.set("scenarios_capped", capped);
    }
    rep.add("states", scs.len() as u64);
    rep.add("transitions", steps);
    rep.add("schedules", schedules);
    rep.add("traces_validated_against_impl", schedules);
    rep.add("distinct_nontrivial", nontrivial);
    rep.add("distinct_outcomes", outcomes);
    rep.set("preemption_bound_completed", bound);
    rep.set("unbounded_for_small_layouts", !q);
    println!("[C10] {} scenarios (layout x parties), {schedules} schedules, {steps} scheduled requests, {outcomes} distinct outcomes, {nontrivial} with deletions or rejections, {capped} capped ({:.1}s)", scs.len(), rep.elapsed());
    rep.finish()
}

pub fn replay(case: &serde_json::Value) -> Result<(), String> {
    let lay: Layout10 = serde_json::from_value(case["layout"].clone()).map_err(|e| e.to_string())?;
    let parties: Vec<Party> = serde_json::from_value(case["parties"].clone()).map_err(|e| e.to_string())?;
    let sc = Sc10::new(lay, parties, case["truncate"].as_bool().unwrap_or(false), case["front_puts"].as_bool().unwrap_or(false));
    let choices: Vec<Choice> = case["schedule"].as_array().unwrap().iter().map(|e| serde_json::from_value(e["choice"].clone()).unwrap()).collect();
    let (trace, r) = crate::explore::sched::replay(&sc, &choices)?;
    for (c, l) in &trace {
        println!("  party{}{} {}", c.task, if c.stop { " STOPS at" } else { "" }, l);
    }
    r.map(|_| ())
}
