//! Whole `Replica::sync` calls of two replicas racing through a REAL server backend (local SQLite
//! server, object-store server over the in-memory store, git with a shared remote): every
//! interleaving of their individual `Server` trait requests, each replica on its own handle.
//! Used by C02 (racing syncs converge, every sync call succeeds) and C08 (the backends under
//! several handles).

use crate::explore::sched::{explore, Choice, ExploreCfg, GateH, Outcome, Scenario, TaskFut};
use crate::model::ops::Tasks;
use crate::props::syncworld::{act_str, Act, World};
use crate::util::{Report, Tier, Violation};
use crate::world::backends::{Backend, BackendKind};
use crate::world::proxy::Ctl;
use crate::world::replicas::{observe, tasks_str, with_replica, Mem};
use async_trait::async_trait;
use serde_json::json;
use taskchampion::server::{AddVersionResult, GetVersionResult, HistorySegment, Server, Snapshot, SnapshotUrgency, VersionId};

/// A `Server` that parks every request at the scheduler before forwarding it.
struct GatedServer {
    inner: Box<dyn Server>,
    gate: GateH,
}

#[async_trait(?Send)]
impl Server for GatedServer {
    async fn add_version(&mut self, parent: VersionId, seg: HistorySegment) -> Result<(AddVersionResult, SnapshotUrgency), taskchampion::Error> {
        let _ = self.gate.pass("add_version".to_string()).await;
        self.inner.add_version(parent, seg).await
    }
    async fn get_child_version(&mut self, parent: VersionId) -> Result<GetVersionResult, taskchampion::Error> {
        let _ = self.gate.pass("get_child_version".to_string()).await;
        self.inner.get_child_version(parent).await
    }
    async fn add_snapshot(&mut self, v: VersionId, s: Snapshot) -> Result<(), taskchampion::Error> {
        let _ = self.gate.pass("add_snapshot".to_string()).await;
        self.inner.add_snapshot(v, s).await
    }
    async fn get_snapshot(&mut self) -> Result<Option<(VersionId, Snapshot)>, taskchampion::Error> {
        let _ = self.gate.pass("get_snapshot".to_string()).await;
        self.inner.get_snapshot().await
    }
}

#[derive(Clone, Debug, serde::Serialize, serde::Deserialize)]
pub struct BackendRace {
    pub kind: BackendKind,
    /// history before the race (local actions and sequential syncs of replicas 0 and 1)
    pub prior: Vec<Act>,
    /// what every order of syncs converges to through the reference chain server
    #[serde(skip)]
    pub want: Tasks,
}

pub struct BCtx {
    backend: Backend,
    world: World,
}

type Out = (Mem, Result<(), String>);

async fn sync_through(b: &Backend, mem: &mut Mem, i: usize) -> Result<(), String> {
    let mut h = b.open(i % 2).await;
    with_replica(mem, Ctl::new(), async |rep| rep.sync(&mut h, true).await.map_err(|e| format!("{e:#}"))).await
}

impl Scenario for BackendRace {
    type Ctx = BCtx;
    type Out = Out;

    fn n_tasks(&self) -> usize {
        2
    }

    fn build(&self, gates: Vec<GateH>) -> (BCtx, Vec<TaskFut<Out>>) {
        let mut w = World::new(2);
        let kind = self.kind;
        let (backend, servers) = crate::util::block_on(async {
            let b = Backend::new(kind, 0).await;
            for a in &self.prior {
                match a {
                    Act::Sync { r, .. } => sync_through(&b, &mut w.reps[*r], *r).await.expect("prior sync through the backend"),
                    _ => {
                        let ops_ = crate::props::syncworld::local_ops(&observe(&mut w.reps[a.replica()]).await.tasks, a);
                        if !ops_.is_empty() {
                            with_replica(&mut w.reps[a.replica()], Ctl::new(), async |rep| rep.commit_operations(ops_).await).await.expect("prior commit");
                        }
                    }
                }
            }
            let s0 = b.open(0).await;
            let s1 = b.open(1).await;
            (b, vec![s0, s1])
        });
        let mut futs: Vec<TaskFut<Out>> = vec![];
        for (i, inner) in servers.into_iter().enumerate() {
            let mut mem = w.reps[i].clone();
            let gate = gates[i].clone();
            futs.push(Box::pin(async move {
                let mut gated: Box<dyn Server> = Box::new(GatedServer { inner, gate });
                let r = with_replica(&mut mem, Ctl::new(), async |rep| rep.sync(&mut gated, true).await.map_err(|e| format!("{e:#}"))).await;
                drop(gated);
                (mem, r)
            }));
        }
        (BCtx { backend, world: w }, futs)
    }

    fn state_hash(&self, _ctx: &BCtx) -> u64 {
        0
    }

    fn check(&self, ctx: BCtx, results: Vec<Option<Out>>, _stopped: &[bool], trace: &[(Choice, String)]) -> Result<Outcome, String> {
        let BCtx { backend, mut world } = ctx;
        for (i, r) in results.into_iter().enumerate() {
            let (mem, res) = r.ok_or_else(|| format!("deadlock: racing sync of replica {i} did not finish"))?;
            world.reps[i] = mem;
            if let Err(e) = res {
                let class = if e.contains("out of sync") { "out-of-sync" } else { "sync-failed" };
                return Err(format!("{class}: racing sync of replica {i} through the {:?} backend failed although the backend is correct: {e}", self.kind));
            }
        }
        let fin = crate::util::block_on(async {
            for round in 0..4 {
                for i in 0..2 {
                    sync_through(&backend, &mut world.reps[i], i).await.map_err(|e| format!("sync-failed: quiescing sync of replica {i} through the {:?} backend: {e}", self.kind))?;
                }
                let (a, b) = (observe(&mut world.reps[0]).await, observe(&mut world.reps[1]).await);
                if round >= 1 && a.unsynced.is_empty() && b.unsynced.is_empty() && a.base == b.base {
                    break;
                }
            }
            let (a, b) = (observe(&mut world.reps[0]).await, observe(&mut world.reps[1]).await);
            if !a.unsynced.is_empty() || !b.unsynced.is_empty() {
                return Err("pending-after-sync: a replica still has unsynchronized operations after four rounds of syncs".to_string());
            }
            if a.tasks != b.tasks {
                return Err(format!("divergence: after racing syncs through the {:?} backend replica 0 holds {} but replica 1 holds {}", self.kind, tasks_str(&a.tasks), tasks_str(&b.tasks)));
            }
            Ok(a.tasks)
        })?;
        if fin != self.want {
            return Err(format!(
                "different-result: racing syncs through the {:?} backend converge to {} but syncing through the reference chain server gives {}",
                self.kind,
                tasks_str(&fin),
                tasks_str(&self.want)
            ));
        }
        // non-trivial: some replica made more than three requests (it was rejected and retried)
        let reqs = |t: usize| trace.iter().filter(|(c, _)| c.task == t).count();
        Ok(Outcome { outcome_hash: crate::util::h64(&(format!("{fin:?}"), reqs(0), reqs(1))), nontrivial: reqs(0) > 3 || reqs(1) > 3 })
    }
}

/// Prior histories: both replicas share a synced base with T1{p=base}; then each makes local
/// changes (conflicting update / unrelated property / delete / new task).
fn priors() -> Vec<Vec<Act>> {
    let s = |x: &str| Some(x.to_string());
    let sync = |r| Act::Sync { r, urg: crate::props::syncworld::Urg::None, avoid: true };
    let base = vec![Act::Create { r: 0, t: 1 }, Act::Update { r: 0, t: 1, p: "p".into(), v: s("base"), ts: 0 }, sync(0), sync(1)];
    let locals: Vec<(Vec<Act>, Vec<Act>)> = vec![
        (vec![Act::Update { r: 0, t: 1, p: "p".into(), v: s("a"), ts: 1 }], vec![Act::Update { r: 1, t: 1, p: "p".into(), v: s("b"), ts: 2 }]),
        (vec![Act::Update { r: 0, t: 1, p: "p".into(), v: s("a"), ts: 2 }], vec![Act::Update { r: 1, t: 1, p: "q".into(), v: s("b"), ts: 1 }, Act::Create { r: 1, t: 2 }]),
        (vec![Act::Delete { r: 0, t: 1 }], vec![Act::Update { r: 1, t: 1, p: "p".into(), v: None, ts: 2 }]),
        (vec![Act::Create { r: 0, t: 2 }, Act::Update { r: 0, t: 2, p: "p".into(), v: s("a"), ts: 1 }], vec![Act::Create { r: 1, t: 2 }]),
    ];
    let mut out = vec![];
    for (a, b) in locals {
        let mut h = base.clone();
        h.extend(a);
        h.extend(b);
        out.push(h);
    }
    // from an empty server: both replicas push their first version at once
    out.push(vec![Act::Create { r: 0, t: 1 }, Act::Create { r: 1, t: 2 }]);
    out
}

fn reference(prior: &[Act]) -> Result<Tasks, String> {
    let mut w = World::new(2);
    for a in prior {
        match a {
            Act::Sync { r, .. } => {
                crate::props::syncworld::do_sync(&mut w, *r, crate::props::syncworld::Urg::None, true, None, None).result.map_err(|e| format!("reference: {e}"))?;
            }
            _ => {
                crate::props::syncworld::do_local(&mut w, a)?;
            }
        }
    }
    crate::props::syncworld::quiesce(&w).map(|(t, _)| t)
}

/// Explore the races for the given property's report. Returns the number of schedules.
pub fn run(prop: &str, rep: &Report, tier: Tier) -> u64 {
    let q = tier == Tier::Quick;
    let mut kinds = vec![BackendKind::Local, BackendKind::Cloud];
    if !q {
        kinds.push(BackendKind::GitRemote);
    }
    let mut total = 0u64;
    for kind in kinds {
        let ps = priors();
        // git: every request costs several processes; two priors only
        let ps: Vec<Vec<Act>> = if kind == BackendKind::GitRemote { ps.into_iter().take(2).collect() } else { ps };
        let mut schedules = 0u64;
        let mut outcomes = 0u64;
        let mut nontrivial = 0u64;
        for prior in ps {
            let want = match reference(&prior) {
                Ok(t) => t,
                Err(e) => {
                    eprintln!("MACHINERY ERROR: reference run of a backend-race prior failed: {e}");
                    std::process::exit(2);
                }
            };
            let sc = BackendRace { kind, prior: prior.clone(), want };
            let cfg = ExploreCfg { bound: usize::MAX, max_schedules: if q { 3_000 } else { 50_000 }, deadline: None, seen: None };
            let (st, fails) = explore(&sc, &cfg);
            schedules += st.schedules;
            outcomes += st.outcomes.len() as u64;
            nontrivial += st.nontrivial_outcomes.len() as u64;
            if st.capped {
                rep.set("exhaustive", false);
            }
            for f in fails.into_iter().take(1) {
                let sched: Vec<String> = f.trace.iter().map(|(c, l)| format!("R{}:{l}", c.task)).collect();
                rep.violation(Violation::new(
                    format!("{}:{kind:?}:backend-race", f.what.split(':').next().unwrap_or("")),
                    format!("{} [prior history {:?}; schedule {sched:?}]", f.what, prior.iter().map(act_str).collect::<Vec<_>>()),
                    json!({"kind": "backend-race", "property": prop, "backend": kind, "prior": prior.iter().map(|a| json!({"act": a})).collect::<Vec<_>>(), "schedule": crate::props::c02::trace_to_json(&f.trace)}),
                ));
            }
        }
        total += schedules;
        rep.add("backend_race_schedules", schedules);
        rep.add("traces_validated_against_impl", schedules);
        rep.set(&format!("backend_races_{kind:?}"), json!({"schedules": schedules, "distinct_outcomes": outcomes, "with_a_rejected_and_retried_sync": nontrivial}));
        println!("[{prop}] two whole syncs racing through the {kind:?} backend: {schedules} schedules, {outcomes} distinct outcomes, {nontrivial} with a retry ({:.1}s)", rep.elapsed());
    }
    total
}

pub fn replay(case: &serde_json::Value) -> Result<(), String> {
    let kind: BackendKind = serde_json::from_value(case["backend"].clone()).map_err(|e| e.to_string())?;
    let prior: Vec<Act> = case["prior"].as_array().ok_or("no prior")?.iter().map(|e| serde_json::from_value(e["act"].clone()).unwrap()).collect();
    let want = reference(&prior)?;
    let sc = BackendRace { kind, prior, want };
    let choices: Vec<Choice> = case["schedule"].as_array().ok_or("no schedule")?.iter().map(|e| serde_json::from_value(e["choice"].clone()).unwrap()).collect();
    let (trace, r) = crate::explore::sched::replay(&sc, &choices)?;
    for (c, l) in &trace {
        println!("  R{} {}", c.task, l);
    }
    r.map(|_| ())
}
