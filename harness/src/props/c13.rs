//! C13 – data leaving the host is sealed, version-bound and tamper-evident
//! (exhaustive tamper sweep against an independent implementation of the documented scheme,
//! plus observation of what the three remote backends actually store).

use crate::model::seal as mseal;
use crate::util::{Opts, Report, Tier, Violation};
use crate::world::backends::{client_id, Backend, BackendKind, SECRET};
use rayon::prelude::*;
use serde_json::json;
use taskchampion::server::verif::{seal, unseal};
use taskchampion::server::{AddVersionResult, GetVersionResult};
use uuid::Uuid;

const MARKER: &str = "MARKER-f3a9-secret-task-content";

fn v(n: u128) -> Uuid {
    Uuid::from_u128(0x5EA1_0000_0000_0000_0000_0000_0000_0000u128 + n)
}

fn violation(rep: &Report, class: &str, what: String, case: serde_json::Value) {
    rep.violation(Violation::new(class.to_string(), format!("{class}: {what}"), case));
}

/// Part 1: the seal/unseal entry points against the model, with an exhaustive tamper sweep.
fn sweep(rep: &Report, tier: Tier) {
    let payloads: Vec<Vec<u8>> = vec![
        vec![],
        vec![0x42],
        format!("{{\"operations\":[{{\"Create\":{{\"uuid\":\"{}\"}}}}]}} {MARKER}", v(9)).into_bytes(),
        (0..65536u32).map(|i| (i % 251) as u8).collect(),
    ];
    let secrets: Vec<Vec<u8>> = vec![b"s".to_vec(), b"correct horse battery staple".to_vec(), b"correct horse battery staple\n".to_vec(), vec![0u8, 255, 1, 254]];
    let salts: Vec<Vec<u8>> = vec![b"0123456789abcdef".to_vec(), client_id().as_bytes().to_vec(), vec![7u8; 16]];
    let vids = [Uuid::nil(), v(1), Uuid::from_u128(u128::MAX)];
    let mut nonces = std::collections::BTreeSet::new();
    let mut sealed_values = vec![];
    for (si, secret) in secrets.iter().enumerate() {
        for (ti, salt) in salts.iter().enumerate() {
            let key = mseal::derive_key(salt, secret);
            for vid in vids {
                for (pi, p) in payloads.iter().enumerate() {
                    let case = json!({"kind": "c13-seal", "secret": si, "salt": ti, "version_id": vid, "payload": pi});
                    let s = match seal(salt, secret, vid, p.clone()) {
                        Ok(s) => s,
                        Err(e) => {
                            violation(rep, "seal-failed", format!("{e:#}"), case);
                            continue;
                        }
                    };
                    rep.add("evaluations", 1);
                    rep.add("sealed_values", 1);
                    match mseal::open(&key, vid, &s) {
                        Ok(pt) if pt == *p => {}
                        Ok(_) => violation(rep, "wrong-plaintext", "the documented scheme opens the value to different bytes".into(), case.clone()),
                        Err(e) => violation(rep, "not-documented-format", format!("a value sealed by the crate cannot be opened with the documented scheme: {e}"), case.clone()),
                    }
                    if let Some(n) = mseal::nonce_of(&s) {
                        if !nonces.insert(n) {
                            violation(rep, "nonce-reuse", "two sealed values carry the same nonce".into(), case.clone());
                        }
                    }
                    // the crate opens what the documented scheme seals (another implementation's data)
                    let foreign = mseal::seal(&key, vid, [si as u8, ti as u8, pi as u8, 9, 9, 9, 9, 9, 9, 9, 9, 9], p);
                    match unseal(salt, secret, vid, foreign) {
                        Ok(pt) if pt == *p => {}
                        _ => violation(rep, "foreign-rejected", "a value sealed exactly as documented is not opened to the original bytes".into(), case.clone()),
                    }
                    sealed_values.push((si, ti, vid, pi, s));
                }
            }
        }
    }
    // mismatches of secret / salt / version id
    let mismatches: u64 = sealed_values
        .par_iter()
        .map(|(si, ti, vid, pi, s)| {
            let mut n = 0;
            for (sj, secret) in secrets.iter().enumerate() {
                for (tj, salt) in salts.iter().enumerate() {
                    for vj in vids {
                        if sj == *si && tj == *ti && vj == *vid {
                            continue;
                        }
                        n += 1;
                        if let Ok(pt) = unseal(salt, secret, vj, s.clone()) {
                            violation(
                                rep,
                                "mismatch-accepted",
                                format!("a value sealed for (secret {si}, salt {ti}, version {vid}) opened with (secret {sj}, salt {tj}, version {vj}) to {} bytes", pt.len()),
                                json!({"kind": "c13-mismatch", "payload": pi}),
                            );
                        }
                    }
                }
            }
            n
        })
        .sum();
    rep.add("evaluations", mismatches);
    rep.add("mismatch_attempts", mismatches);
    // every single-byte modification and every truncation
    let tampered: u64 = sealed_values
        .par_iter()
        .filter(|(si, ti, vid, _, _)| *si == 1 && *ti == 0 && *vid == v(1))
        .map(|(si, ti, vid, pi, s)| {
            let (secret, salt) = (&secrets[*si], &salts[*ti]);
            let mut n = 0u64;
            let big = s.len() > 4096;
            for pos in 0..s.len() {
                let all = !big || pos < 64 || pos + 48 >= s.len() || tier == Tier::Thorough && pos % 97 == 0;
                let deltas: Vec<u8> = if all { (1..=255u8).collect() } else { vec![1, 0x80] };
                for d in deltas {
                    let mut t = s.clone();
                    t[pos] ^= d;
                    n += 1;
                    if let Ok(pt) = unseal(salt, secret, *vid, t) {
                        violation(rep, "tamper-accepted", format!("payload {pi}: byte {pos} xor {d:#x} still opens ({} bytes returned)", pt.len()), json!({"kind": "c13-tamper", "payload": pi, "pos": pos, "xor": d}));
                    }
                }
            }
            let step = if big { 257 } else { 1 };
            for cut in (0..s.len()).step_by(step) {
                n += 2;
                if unseal(salt, secret, *vid, s[..cut].to_vec()).is_ok() {
                    violation(rep, "truncation-accepted", format!("payload {pi}: the first {cut} of {} bytes still open", s.len()), json!({"kind": "c13-truncate", "payload": pi, "cut": cut}));
                }
                if cut > 0 && unseal(salt, secret, *vid, s[cut..].to_vec()).is_ok() {
                    violation(rep, "truncation-accepted", format!("payload {pi}: the last {} of {} bytes still open", s.len() - cut, s.len()), json!({"kind": "c13-truncate", "payload": pi, "cut": cut}));
                }
            }
            // appended garbage
            let mut t = s.clone();
            t.push(0);
            n += 1;
            if unseal(salt, secret, *vid, t).is_ok() {
                violation(rep, "extension-accepted", format!("payload {pi}: value with an appended byte still opens"), json!({"kind": "c13-extend", "payload": pi}));
            }
            n
        })
        .sum();
    rep.add("evaluations", tampered);
    rep.add("tampered_values_tried", tampered);
    rep.add("distinct_nontrivial", tampered + mismatches);
    println!("[C13] sweep: {} sealed values, {mismatches} mismatch attempts, {tampered} tampered/truncated values ({:.1}s)", sealed_values.len(), rep.elapsed());
}

fn contains(hay: &[u8], needle: &[u8]) -> bool {
    hay.windows(needle.len()).any(|w| w == needle)
}

/// Part 2: what each remote backend stores, and what it returns after tampering.
fn end_to_end(rep: &Report, kind: BackendKind) {
    let r: Result<(), (String, String)> = crate::util::block_on(async {
        let mut b = Backend::new(kind, 1).await;
        let fail = |c: &str, w: String| (c.to_string(), w);
        let seg1 = format!("{{\"operations\":[]}} {MARKER} one").into_bytes();
        let seg2 = format!("{{\"operations\":[]}} {MARKER} two").into_bytes();
        let snap = format!("snapshot {MARKER}").into_bytes();
        let AddVersionResult::Ok(v1) = b.handles[0].add_version(Uuid::nil(), seg1.clone()).await.map_err(|e| fail("backend-error", format!("{e:#}")))?.0 else {
            return Err(fail("backend-error", "first version rejected".into()));
        };
        let AddVersionResult::Ok(v2) = b.handles[0].add_version(v1, seg2.clone()).await.map_err(|e| fail("backend-error", format!("{e:#}")))?.0 else {
            return Err(fail("backend-error", "second version rejected".into()));
        };
        b.handles[0].add_snapshot(v2, snap.clone()).await.map_err(|e| fail("backend-error", format!("{e:#}")))?;
        // collect what is stored: (name, bytes, expected salt, AAD version id, expected plaintext)
        struct Stored {
            name: String,
            bytes: Vec<u8>,
            aad: Uuid,
            plain: Vec<u8>,
        }
        let mut stored: Vec<Stored> = vec![];
        let mut all_blobs: Vec<(String, Vec<u8>)> = vec![];
        let salt: Vec<u8>;
        match kind {
            BackendKind::Http => {
                salt = client_id().as_bytes().to_vec();
                let st = b.http.as_ref().unwrap().state.lock().unwrap().clone();
                for (id, parent, body) in &st.versions {
                    let plain = if *id == st.versions[0].0 { seg1.clone() } else { seg2.clone() };
                    stored.push(Stored { name: format!("add-version/{parent}"), bytes: body.clone(), aad: *parent, plain });
                    all_blobs.push((format!("version {id}"), body.clone()));
                }
                for (vv, body) in &st.snapshots {
                    stored.push(Stored { name: format!("add-snapshot/{vv}"), bytes: body.clone(), aad: *vv, plain: snap.clone() });
                    all_blobs.push((format!("snapshot {vv}"), body.clone()));
                }
            }
            BackendKind::Cloud => {
                let dump = b.store.as_ref().unwrap().dump();
                salt = dump.iter().find(|o| o.0 == "salt").map(|o| o.1.clone()).unwrap_or_default();
                for (name, bytes, _, _) in &dump {
                    all_blobs.push((name.clone(), bytes.clone()));
                    if let Some((_, c)) = crate::world::cloud::parse_version(name) {
                        stored.push(Stored { name: name.clone(), bytes: bytes.clone(), aad: c, plain: if c == v1 { seg1.clone() } else { seg2.clone() } });
                    } else if let Some(sv) = crate::world::cloud::parse_snapshot(name) {
                        stored.push(Stored { name: name.clone(), bytes: bytes.clone(), aad: sv, plain: snap.clone() });
                    }
                }
            }
            _ => {
                let dir = b.root.as_ref().unwrap().join("clone0");
                let meta: serde_json::Value = serde_json::from_slice(&std::fs::read(dir.join("meta")).map_err(|e| fail("harness", e.to_string()))?).map_err(|e| fail("harness", e.to_string()))?;
                salt = b64(meta["salt"].as_str().unwrap_or(""));
                for e in std::fs::read_dir(&dir).unwrap().flatten() {
                    let name = e.file_name().to_string_lossy().to_string();
                    if name == ".git" {
                        continue;
                    }
                    let bytes = std::fs::read(e.path()).unwrap();
                    all_blobs.push((name.clone(), bytes.clone()));
                    if let Some(rest) = name.strip_prefix("v-") {
                        let child = Uuid::parse_str(rest.split('-').nth(1).unwrap_or("")).unwrap_or(Uuid::nil());
                        stored.push(Stored { name: name.clone(), bytes, aad: child, plain: if child == v1 { seg1.clone() } else { seg2.clone() } });
                    } else if name == "snapshot" {
                        let j: serde_json::Value = serde_json::from_slice(&bytes).map_err(|e| fail("stored-format", format!("snapshot file is not JSON: {e}")))?;
                        let sv = Uuid::parse_str(j["version_id"].as_str().unwrap_or("")).unwrap_or(Uuid::nil());
                        stored.push(Stored { name, bytes: b64(j["payload"].as_str().unwrap_or("")), aad: sv, plain: snap.clone() });
                    }
                }
                // the committed objects of the repository must not contain the marker either
                let out = std::process::Command::new("git").args(["grep", "-c", MARKER, "HEAD"]).current_dir(&dir).output().map_err(|e| fail("harness", e.to_string()))?;
                if out.status.success() {
                    return Err(fail("plaintext-leak", "the marker string is found in the committed git tree".into()));
                }
            }
        }
        if stored.len() != 3 {
            return Err(fail("stored-format", format!("expected two version objects and one snapshot, found {} sealed objects", stored.len())));
        }
        let key = mseal::derive_key(&salt, SECRET);
        let mut nonces = std::collections::BTreeSet::new();
        for s in &stored {
            rep.add("evaluations", 1);
            rep.add("stored_objects_opened", 1);
            match mseal::open(&key, s.aad, &s.bytes) {
                Ok(p) if p == s.plain => {}
                Ok(_) => return Err(fail("wrong-plaintext", format!("{}: opens to different bytes than were handed to the backend", s.name))),
                Err(e) => return Err(fail("not-documented-format", format!("{kind:?} object {} is not in the documented sealed form (salt/AAD/format as documented): {e}", s.name))),
            }
            if !nonces.insert(mseal::nonce_of(&s.bytes)) {
                return Err(fail("nonce-reuse", format!("{kind:?}: two stored objects share a nonce")));
            }
        }
        for (name, bytes) in &all_blobs {
            if contains(bytes, MARKER.as_bytes()) || name.contains(MARKER) {
                return Err(fail("plaintext-leak", format!("{kind:?}: task content appears unsealed in {name}")));
            }
        }
        // tamper with the first version object / snapshot, one byte at a time, and read back
        let mut tampers = 0u64;
        let first = stored.iter().find(|s| s.plain == seg1).unwrap();
        for pos in 0..first.bytes.len() {
            let mut t = first.bytes.clone();
            t[pos] ^= 1;
            match kind {
                BackendKind::Http => b.http.as_ref().unwrap().state.lock().unwrap().versions[0].2 = t,
                BackendKind::Cloud => b.store.as_ref().unwrap().raw_put(&first.name, t, crate::world::cloud::real_now()),
                _ => std::fs::write(b.root.as_ref().unwrap().join("clone0").join(&first.name), t).unwrap(),
            }
            tampers += 1;
            match b.handles[0].get_child_version(Uuid::nil()).await {
                Err(_) => {}
                Ok(GetVersionResult::Version { history_segment, .. }) => {
                    return Err(fail("tamper-accepted", format!("{kind:?}: stored version with byte {pos} flipped was returned as data ({} bytes)", history_segment.len())));
                }
                Ok(GetVersionResult::NoSuchVersion) => {
                    return Err(fail("tamper-hidden", format!("{kind:?}: stored version with byte {pos} flipped is reported as 'no such version' instead of an error")));
                }
            }
        }
        // a version object re-labelled as another version (swap the two stored payloads)
        let second = stored.iter().find(|s| s.plain == seg2).unwrap();
        match kind {
            BackendKind::Http => {
                let mut st = b.http.as_ref().unwrap().state.lock().unwrap();
                st.versions[0].2 = second.bytes.clone();
            }
            BackendKind::Cloud => b.store.as_ref().unwrap().raw_put(&first.name, second.bytes.clone(), crate::world::cloud::real_now()),
            _ => std::fs::write(b.root.as_ref().unwrap().join("clone0").join(&first.name), &second.bytes).unwrap(),
        }
        tampers += 1;
        if let Ok(GetVersionResult::Version { .. }) = b.handles[0].get_child_version(Uuid::nil()).await {
            return Err(fail("relabel-accepted", format!("{kind:?}: the second version's sealed bytes stored under the first version's name were returned as data")));
        }
        // put the first version back, then tamper with the stored SNAPSHOT in the form the backend
        // really stores it (git: the JSON file as it lies in the repository): every single-byte
        // modification and every truncation must be answered with an error - or, where the change
        // is immaterial to the encoding, with exactly the original snapshot - never with "no
        // snapshot" and never with other data
        match kind {
            BackendKind::Http => b.http.as_ref().unwrap().state.lock().unwrap().versions[0].2 = first.bytes.clone(),
            BackendKind::Cloud => b.store.as_ref().unwrap().raw_put(&first.name, first.bytes.clone(), crate::world::cloud::real_now()),
            _ => std::fs::write(b.root.as_ref().unwrap().join("clone0").join(&first.name), &first.bytes).unwrap(),
        }
        let snap_name = stored.iter().find(|s| s.plain == snap).map(|s| s.name.clone()).unwrap();
        let raw: Vec<u8> = match kind {
            BackendKind::Http => b.http.as_ref().unwrap().state.lock().unwrap().snapshots.last().unwrap().1.clone(),
            BackendKind::Cloud => b.store.as_ref().unwrap().dump().into_iter().find(|o| o.0 == snap_name).unwrap().1,
            _ => std::fs::read(b.root.as_ref().unwrap().join("clone0").join("snapshot")).unwrap(),
        };
        let put_snapshot = |b: &Backend, t: Vec<u8>| match kind {
            BackendKind::Http => b.http.as_ref().unwrap().state.lock().unwrap().snapshots.last_mut().unwrap().1 = t,
            BackendKind::Cloud => b.store.as_ref().unwrap().raw_put(&snap_name, t, crate::world::cloud::real_now()),
            _ => std::fs::write(b.root.as_ref().unwrap().join("clone0").join("snapshot"), t).unwrap(),
        };
        let mut variants: Vec<(String, Vec<u8>)> = vec![];
        for pos in 0..raw.len() {
            let mut t = raw.clone();
            t[pos] ^= 1;
            variants.push((format!("byte {pos} flipped"), t));
        }
        for len in 0..raw.len() {
            variants.push((format!("truncated to {len} bytes"), raw[..len].to_vec()));
        }
        for (what, t) in variants {
            put_snapshot(&b, t);
            tampers += 1;
            match b.handles[0].get_snapshot().await {
                Err(_) => {}
                Ok(Some((v, data))) if v == v2 && data == snap => {}
                Ok(Some((_, data))) => return Err(fail("tamper-accepted", format!("{kind:?}: stored snapshot with {what} was returned as data ({} bytes)", data.len()))),
                Ok(None) => return Err(fail("tamper-hidden", format!("{kind:?}: stored snapshot with {what} is reported as 'no snapshot' instead of an error"))),
            }
        }
        put_snapshot(&b, raw);
        rep.add("evaluations", tampers);
        rep.add("stored_tampers_read_back", tampers);
        Ok(())
    });
    match r {
        Ok(()) => println!("[C13] {kind:?}: stored objects match the documented form; tampered objects rejected ({:.1}s)", rep.elapsed()),
        Err((class, what)) => violation(rep, &format!("{class}:{kind:?}"), what, json!({"kind": "c13-backend", "backend": kind})),
    }
}

/// Git with a shared remote, two clones that each invented a salt before either published: what
/// the second clone stores after adopting the first one's history must be sealed under the key
/// of the salt that is stored next to it.
fn two_salts(rep: &Report) {
    let kind = BackendKind::GitRemoteFresh;
    let r: Result<(), (String, String)> = crate::util::block_on(async {
        let mut b = Backend::new(kind, 2).await;
        let fail = |c: &str, w: String| (c.to_string(), w);
        let seg1 = format!("{{\"operations\":[]}} {MARKER} one").into_bytes();
        let seg2 = format!("{{\"operations\":[]}} {MARKER} two").into_bytes();
        let AddVersionResult::Ok(v1) = b.handles[0].add_version(Uuid::nil(), seg1.clone()).await.map_err(|e| fail("backend-error", format!("{e:#}")))?.0 else {
            return Err(fail("backend-error", "first version rejected".into()));
        };
        match b.handles[1].get_child_version(Uuid::nil()).await {
            Ok(GetVersionResult::Version { version_id, history_segment, .. }) if version_id == v1 && history_segment == seg1 => {}
            Ok(other) => return Err(fail("wrong-plaintext", format!("the second clone reads the first clone's version as {other:?}"))),
            Err(e) => return Err(fail("cannot-open", format!("the second clone (same secret) cannot open the version the first clone published: {e:#}"))),
        }
        let AddVersionResult::Ok(v2) = b.handles[1].add_version(v1, seg2.clone()).await.map_err(|e| fail("backend-error", format!("{e:#}")))?.0 else {
            return Err(fail("backend-error", "second version rejected".into()));
        };
        // what the second clone published, opened with the documented derivation from the stored salt
        let dir = b.root.as_ref().unwrap().join("clone1");
        let meta: serde_json::Value = serde_json::from_slice(&std::fs::read(dir.join("meta")).map_err(|e| fail("harness", e.to_string()))?).map_err(|e| fail("harness", e.to_string()))?;
        let key = mseal::derive_key(&b64(meta["salt"].as_str().unwrap_or("")), SECRET);
        let name = format!("v-{}-{}", v1.as_simple(), v2.as_simple());
        let bytes = std::fs::read(dir.join(&name)).map_err(|e| fail("stored-format", format!("{name}: {e}")))?;
        match mseal::open(&key, v2, &bytes) {
            Ok(p) if p == seg2 => {}
            Ok(_) => return Err(fail("wrong-plaintext", format!("{name}: opens to different bytes than were handed to the backend"))),
            Err(e) => return Err(fail("not-documented-format", format!("{name}, written by a clone that adopted another clone's salt, does not open with the key derived from the secret and the stored salt: {e}"))),
        }
        match b.handles[0].get_child_version(v1).await {
            Ok(GetVersionResult::Version { history_segment, .. }) if history_segment == seg2 => {}
            other => return Err(fail("cannot-open", format!("the first clone cannot read the version the second clone published: {other:?}"))),
        }
        rep.add("evaluations", 4);
        rep.add("stored_objects_opened", 1);
        Ok(())
    });
    match r {
        Ok(()) => println!("[C13] {kind:?}: a clone that adopted another clone's salt seals under that salt's key ({:.1}s)", rep.elapsed()),
        Err((class, what)) => violation(rep, &format!("{class}:{kind:?}"), what, json!({"kind": "c13-backend", "backend": kind})),
    }
}

fn b64(s: &str) -> Vec<u8> {
    // minimal base64 (standard alphabet, padded) decoder
    let mut out = vec![];
    let mut buf = 0u32;
    let mut bits = 0;
    for c in s.bytes() {
        let v = match c {
            b'A'..=b'Z' => c - b'A',
            b'a'..=b'z' => c - b'a' + 26,
            b'0'..=b'9' => c - b'0' + 52,
            b'+' | b'-' => 62,
            b'/' | b'_' => 63,
            _ => continue,
        } as u32;
        buf = (buf << 6) | v;
        bits += 6;
        if bits >= 8 {
            bits -= 8;
            out.push((buf >> bits) as u8);
            buf &= (1 << bits) - 1;
        }
    }
    out
}

pub fn run(opts: &Opts) -> i32 {
    let rep = Report::new("C13", "exploration", opts);
    rep.set("exhaustive", true);
    rep.set("rule", "4 payloads (empty, 1 byte, a JSON version, 64 KB) x 3 secrets x 3 salts x 3 version ids sealed by the crate and opened by an independent implementation of docs/src/encryption.md (ring PBKDF2-HMAC-SHA256 x600000, ChaCha20-Poly1305, AAD 0x01||version id, envelope 0x01||nonce||ct); the reverse direction (model seals, crate opens); every mismatch of secret/salt/version id; every single-byte position x all 255 other values (64 KB payload: all values at both ends, two values elsewhere), every prefix and suffix truncation, appended byte; then what the HTTP harness server, the in-memory object store and the git work tree actually hold after versions and a snapshot with a marker string were handed to the real backends, each stored version flipped one byte at a time, and the stored snapshot (in the form the backend really keeps it) flipped one byte at a time and truncated to every length, and read back through the Server; two git clones that each invented a salt before either published; distinct_nontrivial = tampered + mismatched values tried");
    rep.assume("the independent implementation is self-checked against RFC 8439 2.8.2 and RFC 7914 test vectors at start-up");
    if let Err(e) = mseal::self_check() {
        eprintln!("MACHINERY ERROR: sealing model self-check failed: {e}");
        return 2;
    }
    // the memo stores what the crate's real derivation returned the first time for each of the 9
    // (salt, secret) pairs; the model derives its keys independently
    taskchampion::server::verif::enable_key_memo(true);
    sweep(&rep, opts.tier);
    for kind in [BackendKind::Cloud, BackendKind::Http, BackendKind::GitLocal] {
        end_to_end(&rep, kind);
    }
    two_salts(&rep);
    rep.sample(json!({"payload": "64 KB", "secret": "correct horse battery staple", "salt": "0123456789abcdef", "tamper": "byte 13 xor 0x01"}));
    rep.sample(json!({"backend": "Http", "observed": "body of POST add-version/<parent> opened with salt = client id, AAD = parent version id"}));
    rep.finish()
}
