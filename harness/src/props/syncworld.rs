//! The "sync world": R real replicas over in-memory storage and one harness chain server.
//! Shared by C01, C02, C03, C04, C12, C14, C20.

use crate::model::ops::{self, MOp, Tasks};
use crate::world::mserver::{ChainState, MServer, ServerCtl};
use crate::world::proxy::Ctl;
use crate::world::replicas::{big_value, observe, tid, tname, with_replica, Mem, Obs};
use chrono::{TimeZone, Utc};
use serde::{Deserialize, Serialize};
use std::sync::{Arc, Mutex};
use taskchampion::server::SnapshotUrgency;
use taskchampion::Operation;

#[derive(Clone)]
pub struct World {
    pub reps: Vec<Mem>,
    /// cached observation of each replica (refreshed after every action on it)
    pub obs: Vec<Arc<Obs>>,
    pub chain: ChainState,
    pub big_used: u8,
    /// number of versions on the chain that were produced by a sync that sent >= 2 versions
    pub multi_version_syncs: u32,
    /// some sync so far met the trigger of the known finding "invalid operations rebased": an
    /// operation that was invalid where it was made (pending here or pulled) met concurrent
    /// operations on the same task
    pub invalid_rebased: bool,
    /// some commit so far contained an operation that was invalid where it stood (only the
    /// `Messy` / `Ghost` actions make such commits)
    pub has_invalid_ops: bool,
}

/// Trigger of the known finding (see known_findings.json, C01): replica `r` is about to sync with
/// pending operations and unseen versions that touch a common task, and on either side one of the
/// operations on that task was invalid where it was made (create of an existing task,
/// update/delete of a missing one).
pub fn invalid_rebase_trigger(w: &World, r: usize) -> bool {
    let o = &w.obs[r];
    let Some(upto) = (if o.base.is_nil() { Some(0) } else { w.chain.index_of(o.base).map(|i| i + 1) }) else { return false };
    let mut t = match ops::replay_chain(w.chain.versions[..upto].iter().map(|v| v.seg.as_slice())) {
        Ok(t) => t,
        Err(_) => return false,
    };
    let base = t.clone();
    let invalid_here = |t: &Tasks, m: &ops::MOp| match m {
        ops::MOp::Create(u) => t.contains_key(u),
        other => !t.contains_key(&other.uuid()),
    };
    // pulled side, from the base state
    let mut pulled: std::collections::BTreeMap<uuid::Uuid, bool> = Default::default();
    for v in &w.chain.versions[upto..] {
        let Ok(ms) = ops::parse_version_cached(&v.seg) else { return false };
        for m in ms.iter() {
            let e = pulled.entry(m.uuid()).or_insert(false);
            *e |= invalid_here(&t, m);
            ops::apply(&mut t, m);
        }
    }
    // pending side, from the base state
    let mut t = base;
    let mut pending: std::collections::BTreeMap<uuid::Uuid, bool> = Default::default();
    for op in &o.unsynced {
        if let Some(m) = ops::to_sync(op) {
            let e = pending.entry(m.uuid()).or_insert(false);
            *e |= invalid_here(&t, &m);
            ops::apply(&mut t, &m);
        }
    }
    pending.iter().any(|(u, inv)| pulled.get(u).is_some_and(|pinv| *inv || *pinv))
}

/// Class prefix of every oracle failure in a world in which the trigger above has fired.
pub const KNOWN_INVALID_REBASE: &str = "invalid-operation-rebased";

pub fn tag_known(w: &World, e: String) -> String {
    if w.invalid_rebased && !e.starts_with(KNOWN_INVALID_REBASE) {
        format!("{KNOWN_INVALID_REBASE}: a sync in this history rebased operations of which one was invalid where it was made (redundant create / update or delete of a missing task) over concurrent operations on the same task; consequence: {e}")
    } else {
        e
    }
}

impl World {
    pub fn new(r: usize) -> World {
        let mut reps: Vec<Mem> = (0..r).map(|_| Mem::default()).collect();
        let obs = reps.iter_mut().map(|m| Arc::new(obs_of(m))).collect();
        World {
            reps,
            obs,
            chain: ChainState::default(),
            big_used: 0,
            multi_version_syncs: 0,
            invalid_rebased: false,
            has_invalid_ops: false,
        }
    }
}

#[derive(Clone, Copy, Debug, PartialEq, Eq, Hash, Serialize, Deserialize)]
pub enum Urg {
    None,
    Low,
    High,
}

impl Urg {
    pub fn to_real(self) -> SnapshotUrgency {
        match self {
            Urg::None => SnapshotUrgency::None,
            Urg::Low => SnapshotUrgency::Low,
            Urg::High => SnapshotUrgency::High,
        }
    }
}

#[derive(Clone, Debug, PartialEq, Eq, Hash, Serialize, Deserialize)]
pub enum Act {
    Create { r: usize, t: u8 },
    Delete { r: usize, t: u8 },
    /// update property `p` of task `t` to `v` (None = remove) with timestamp `ts` seconds
    Update { r: usize, t: u8, p: String, v: Option<String>, ts: i64 },
    /// like `Update`, but the operation's recorded old value is the NEW value (what a caller
    /// records who holds a stale copy of the task in which the property already had that value);
    /// old values never leave the replica and must not influence what is stored or sent
    UpdateStale { r: usize, t: u8, p: String, v: Option<String>, ts: i64 },
    /// update property "f" to the 1 000 001-byte value
    Big { r: usize, t: u8, ts: i64 },
    /// an undo point (never leaves the replica)
    UndoPoint { r: usize },
    /// one commit of several operations: create the task and set p=a@1
    CreateSet { r: usize, t: u8 },
    /// one commit of several operations: delete the task, create it again and set p=c@2
    Recreate { r: usize, t: u8 },
    /// one commit containing an operation that is invalid where it stands (the API accepts and
    /// records it, every replica must ignore it alike): create T, T.p=m@3, create T AGAIN, T.q=m@3
    Messy { r: usize, t: u8 },
    /// one commit with an update of a task that does not exist on this replica: T.p=g@3
    Ghost { r: usize, t: u8 },
    Sync { r: usize, urg: Urg, avoid: bool },
}

impl Act {
    pub fn replica(&self) -> usize {
        match self {
            Act::Create { r, .. }
            | Act::Delete { r, .. }
            | Act::Update { r, .. }
            | Act::UpdateStale { r, .. }
            | Act::Big { r, .. }
            | Act::UndoPoint { r }
            | Act::CreateSet { r, .. }
            | Act::Recreate { r, .. }
            | Act::Messy { r, .. }
            | Act::Ghost { r, .. }
            | Act::Sync { r, .. } => *r,
        }
    }
    pub fn is_sync(&self) -> bool {
        matches!(self, Act::Sync { .. })
    }
}

pub fn ts(secs: i64) -> chrono::DateTime<Utc> {
    Utc.timestamp_opt(1_700_000_000 + secs, 0).unwrap()
}

/// Build the valid local operation for an action against the replica's current tasks
/// (None when the action is not valid there).
pub fn local_op(tasks: &Tasks, a: &Act) -> Option<Operation> {
    match a {
        Act::Create { t, .. } => {
            let u = tid(*t);
            (!tasks.contains_key(&u)).then_some(Operation::Create { uuid: u })
        }
        Act::Delete { t, .. } => {
            let u = tid(*t);
            tasks.get(&u).map(|old| Operation::Delete {
                uuid: u,
                old_task: old.clone().into_iter().collect(),
            })
        }
        Act::Update { t, p, v, ts: s, .. } => {
            let u = tid(*t);
            tasks.get(&u).map(|old| Operation::Update {
                uuid: u,
                property: p.clone(),
                old_value: old.get(p).cloned(),
                value: v.clone(),
                timestamp: ts(*s),
            })
        }
        Act::UpdateStale { t, p, v, ts: s, .. } => {
            let u = tid(*t);
            tasks.get(&u).map(|_| Operation::Update {
                uuid: u,
                property: p.clone(),
                old_value: v.clone(),
                value: v.clone(),
                timestamp: ts(*s),
            })
        }
        Act::Big { t, ts: s, .. } => {
            let u = tid(*t);
            tasks.get(&u).map(|old| Operation::Update {
                uuid: u,
                property: "f".into(),
                old_value: old.get("f").cloned(),
                value: Some(big_value()),
                timestamp: ts(*s),
            })
        }
        Act::UndoPoint { .. } => Some(Operation::UndoPoint),
        Act::CreateSet { .. } | Act::Recreate { .. } | Act::Messy { .. } | Act::Ghost { .. } => None,
        Act::Sync { .. } => None,
    }
}

/// The valid local operations (one commit) for an action; empty when it is not valid there.
pub fn local_ops(tasks: &Tasks, a: &Act) -> Vec<Operation> {
    match a {
        Act::CreateSet { t, .. } => {
            let u = tid(*t);
            if tasks.contains_key(&u) {
                return vec![];
            }
            vec![
                Operation::Create { uuid: u },
                Operation::Update { uuid: u, property: "p".into(), old_value: None, value: Some("a".into()), timestamp: ts(1) },
            ]
        }
        Act::Recreate { t, .. } => {
            let u = tid(*t);
            let Some(old) = tasks.get(&u) else { return vec![] };
            vec![
                Operation::Delete { uuid: u, old_task: old.clone().into_iter().collect() },
                Operation::Create { uuid: u },
                Operation::Update { uuid: u, property: "p".into(), old_value: None, value: Some("c".into()), timestamp: ts(2) },
            ]
        }
        Act::Messy { t, .. } => {
            let u = tid(*t);
            let old = tasks.get(&u);
            let upd = |p: &str, old_value: Option<String>| Operation::Update { uuid: u, property: p.into(), old_value, value: Some("m".into()), timestamp: ts(3) };
            vec![
                Operation::Create { uuid: u },
                upd("p", old.and_then(|o| o.get("p")).cloned()),
                Operation::Create { uuid: u },
                upd("q", old.and_then(|o| o.get("q")).cloned()),
            ]
        }
        Act::Ghost { t, .. } => {
            let u = tid(*t);
            if tasks.contains_key(&u) {
                return vec![];
            }
            vec![Operation::Update { uuid: u, property: "p".into(), old_value: None, value: Some("g".into()), timestamp: ts(3) }]
        }
        other => local_op(tasks, other).into_iter().collect(),
    }
}

/// Result of one sync as seen by the harness.
pub struct SyncOutcome {
    pub result: Result<(), String>,
    /// versions added to the chain by this sync (indices into chain.versions)
    pub added: Vec<usize>,
    /// snapshots uploaded by this sync
    pub snapshots: Vec<(uuid::Uuid, Arc<Vec<u8>>)>,
    /// urgencies the server answered with, per accepted version
    pub server_log: Vec<String>,
}

/// Run one real `Replica::sync` of replica `r` against the chain of `w`.
pub fn do_sync(w: &mut World, r: usize, urg: Urg, avoid: bool, sctl: Option<Arc<ServerCtl>>, ctl: Option<Arc<Ctl>>) -> SyncOutcome {
    if w.has_invalid_ops && !w.invalid_rebased && invalid_rebase_trigger(w, r) {
        w.invalid_rebased = true;
    }
    let st = Arc::new(Mutex::new(std::mem::take(&mut w.chain)));
    let n_before = st.lock().unwrap().versions.len();
    let s_before = st.lock().unwrap().snapshots.len();
    let mut server = MServer::new(st.clone(), r);
    if let Some(c) = sctl {
        server.ctl = c;
    }
    server.ctl.urgency.lock().unwrap().1 = Some(urg.to_real());
    let sctl = server.ctl.clone();
    let mut boxed = server.boxed();
    let ctl = ctl.unwrap_or_else(Ctl::new);
    // a panic inside the library is a finding about the library, not an engine failure
    let result = match std::panic::catch_unwind(std::panic::AssertUnwindSafe(|| {
        crate::util::block_on(with_replica(&mut w.reps[r], ctl, async |rep| {
            rep.sync(&mut boxed, avoid).await.map_err(|e| format!("{e:#}"))
        }))
    })) {
        Ok(r) => r,
        Err(p) => {
            let msg = p.downcast_ref::<String>().cloned().or_else(|| p.downcast_ref::<&str>().map(|s| s.to_string())).unwrap_or_else(|| "panic".into());
            Err(format!("sync panicked: {msg}"))
        }
    };
    drop(boxed);
    w.obs[r] = Arc::new(obs_of(&mut w.reps[r]));
    w.chain = std::mem::take(&mut *st.lock().unwrap());
    let added: Vec<usize> = (n_before..w.chain.versions.len()).collect();
    if added.len() >= 2 {
        w.multi_version_syncs += 1;
    }
    let snapshots = w.chain.snapshots[s_before..].to_vec();
    let server_log = sctl.log.lock().unwrap().clone();
    SyncOutcome {
        result,
        added,
        snapshots,
        server_log,
    }
}

/// Apply a local (non-sync) action through the real `Replica::commit_operations`.
pub fn do_local(w: &mut World, a: &Act) -> Result<bool, String> {
    let r = a.replica();
    let obs = w.obs[r].clone();
    let ops_ = local_ops(&obs.tasks, a);
    if ops_.is_empty() {
        return Ok(false);
    }
    if matches!(a, Act::Messy { .. } | Act::Ghost { .. }) {
        w.has_invalid_ops = true;
    }
    if matches!(a, Act::Big { .. }) {
        w.big_used += 1;
    }
    crate::util::block_on(with_replica(&mut w.reps[r], Ctl::new(), async |rep| {
        rep.commit_operations(ops_).await.map_err(|e| format!("commit failed: {e:#}"))
    }))?;
    w.obs[r] = Arc::new(obs_of(&mut w.reps[r]));
    Ok(true)
}

pub fn obs_of(m: &mut Mem) -> Obs {
    crate::util::block_on(observe(m))
}

pub fn world_obs(w: &World) -> Vec<Arc<Obs>> {
    w.obs.clone()
}

/// Canonical key of a world: replicas sorted (they are symmetric), chain by id and segment
/// hash.
pub fn canon(w: &World) -> u128 {
    let mut reps: Vec<String> = w.obs.iter().map(|o| o.canon()).collect();
    reps.sort();
    let chain: Vec<(u128, u128, u64)> = w
        .chain
        .versions
        .iter()
        .map(|v| (v.id.as_u128(), v.parent.as_u128(), v.h))
        .collect();
    let snaps: Vec<(u128, u64)> = w
        .chain
        .snapshots
        .iter()
        // snapshot bytes depend on hash-map iteration order; canonicalise by decoded content
        .map(|(v, b)| (v.as_u128(), match decode_snapshot(b) { Ok(t) => crate::util::h64(&t), Err(_) => crate::util::h64(b.as_ref()) }))
        .collect();
    crate::util::h128(&(reps, chain, snaps, w.big_used, w.invalid_rebased))
}

/// The replica invariant: the chain replayed up to the replica's base version, then the
/// documented conversion of its unsynchronized operations, equals its tasks; and the base
/// version is on the chain (or nil).
pub fn replica_invariant(chain: &ChainState, o: &Obs, who: usize) -> Result<(), String> {
    let Some(segs) = chain.segments_upto(o.base) else {
        return Err(format!(
            "replica-invariant: replica {who} has base version {} which is not on the chain",
            tname(o.base)
        ));
    };
    let mut t = ops::replay_chain(segs).map_err(|e| format!("wire-format: {e}"))?;
    for op in &o.unsynced {
        if let Some(m) = ops::to_sync(op) {
            ops::apply(&mut t, &m);
        }
    }
    if t != o.tasks {
        return Err(format!(
            "replica-invariant: replica {who}: chain up to base {} plus pending operations gives {} but the replica holds {}",
            tname(o.base),
            crate::world::replicas::tasks_str(&t),
            crate::world::replicas::tasks_str(&o.tasks)
        ));
    }
    Ok(())
}

/// Let every replica sync in turn until a whole round pushes nothing. Checks that all syncs
/// succeed, that all replicas then hold identical tasks and that this state is the replay of
/// the chain. Returns the converged tasks.
pub fn quiesce(w: &World) -> Result<(Tasks, World), String> {
    let mut w = w.clone();
    match quiesce_in_place(&mut w) {
        Ok(t) => Ok((t, w)),
        Err(e) => Err(tag_known(&w, e)),
    }
}

fn quiesce_in_place(w: &mut World) -> Result<Tasks, String> {
    let r = w.reps.len();
    let mut rounds = 0;
    loop {
        rounds += 1;
        let mut any = false;
        for i in 0..r {
            // a replica with nothing pending that is already at the chain head would neither pull
            // nor push: its sync is skipped here (such empty syncs are explored as actions)
            let o = &w.obs[i];
            let at_head = Some(o.base) == w.chain.latest() || (o.base.is_nil() && w.chain.versions.is_empty());
            if o.unsynced.is_empty() && at_head {
                continue;
            }
            any = true;
            let out = do_sync(w, i, Urg::None, false, None, None);
            if let Err(e) = out.result {
                return Err(format!("sync-failed: quiescing sync of replica {i} failed: {e}"));
            }
        }
        if !any {
            break;
        }
        if rounds > r + 3 {
            return Err("no-quiescence: the replicas do not reach a state in which every one is at the latest version with nothing left to send".into());
        }
    }
    let obs = world_obs(w);
    for (i, o) in obs.iter().enumerate() {
        if !o.unsynced.is_empty() {
            return Err(format!("pending-after-sync: replica {i} still has unsynchronized operations after a successful sync"));
        }
        if Some(o.base) != w.chain.latest() && !(o.base.is_nil() && w.chain.versions.is_empty()) {
            return Err(format!(
                "not-at-latest: replica {i} is at {} but the chain head is {:?}",
                tname(o.base),
                w.chain.latest().map(tname)
            ));
        }
    }
    let replay = ops::replay_chain(w.chain.all_segments()).map_err(|e| format!("wire-format: {e}"))?;
    for (i, o) in obs.iter().enumerate() {
        if o.tasks != obs[0].tasks {
            return Err(format!(
                "divergence: after quiescence replica 0 holds {} but replica {i} holds {}",
                crate::world::replicas::tasks_str(&obs[0].tasks),
                crate::world::replicas::tasks_str(&o.tasks)
            ));
        }
    }
    if obs[0].tasks != replay {
        return Err(format!(
            "chain-replay: replicas converged to {} but replaying the server's versions gives {}",
            crate::world::replicas::tasks_str(&obs[0].tasks),
            crate::world::replicas::tasks_str(&replay)
        ));
    }
    Ok(replay)
}

/// Decode a snapshot independently of the crate: zlib + JSON object of objects of strings.
pub fn decode_snapshot(bytes: &[u8]) -> Result<Tasks, String> {
    use std::io::Read;
    let mut d = flate2::read::ZlibDecoder::new(bytes);
    let mut s = Vec::new();
    d.read_to_end(&mut s).map_err(|e| format!("snapshot is not zlib: {e}"))?;
    let v: serde_json::Value = serde_json::from_slice(&s).map_err(|e| format!("snapshot is not JSON: {e}"))?;
    let o = v.as_object().ok_or("snapshot is not a JSON object")?;
    let mut t = Tasks::new();
    for (k, props) in o {
        let u = uuid::Uuid::parse_str(k).map_err(|e| format!("snapshot key {k}: {e}"))?;
        let po = props.as_object().ok_or("snapshot task is not an object")?;
        let mut m = std::collections::BTreeMap::new();
        for (pk, pv) in po {
            m.insert(pk.clone(), pv.as_str().ok_or("snapshot value is not a string")?.to_string());
        }
        if t.insert(u, m).is_some() {
            return Err(format!("snapshot lists task {k} twice"));
        }
    }
    Ok(t)
}

pub fn act_str(a: &Act) -> String {
    match a {
        Act::Create { r, t } => format!("R{r}:create T{t}"),
        Act::Delete { r, t } => format!("R{r}:delete T{t}"),
        Act::Update { r, t, p, v, ts } => format!(
            "R{r}:T{t}.{p}={}@{ts}",
            v.as_deref().unwrap_or("∅")
        ),
        Act::UpdateStale { r, t, p, v, ts } => format!("R{r}:T{t}.{p}={}@{ts} (recorded old value = new value)", v.as_deref().unwrap_or("∅")),
        Act::Big { r, t, ts } => format!("R{r}:T{t}.f=<1000001 bytes>@{ts}"),
        Act::UndoPoint { r } => format!("R{r}:undo-point"),
        Act::CreateSet { r, t } => format!("R{r}:commit[create T{t}; T{t}.p=a@1]"),
        Act::Recreate { r, t } => format!("R{r}:commit[delete T{t}; create T{t}; T{t}.p=c@2]"),
        Act::Messy { r, t } => format!("R{r}:commit[create T{t}; T{t}.p=m@3; create T{t}; T{t}.q=m@3]"),
        Act::Ghost { r, t } => format!("R{r}:commit[T{t}.p=g@3 (T{t} does not exist here)]"),
        Act::Sync { r, urg, avoid } => format!("R{r}:sync(urgency={urg:?},avoid={avoid})"),
    }
}

/// The expected sync form of an operation list (documented conversion).
pub fn expected_wire(ops_: &[Operation]) -> Vec<MOp> {
    ops_.iter().filter_map(ops::to_sync).collect()
}
