//! C01 – replicas converge after any history of edits and syncs (E-STATE).

use super::syncsys::*;
use super::syncworld::*;
use crate::explore::state::{explore, StateCfg, Sys};
use crate::util::{Opts, Report, Tier, Violation};
use serde_json::json;
use std::sync::atomic::Ordering;

pub struct Space {
    pub name: &'static str,
    pub sys: SyncSys,
    pub depth: usize,
}

fn spaces(tier: Tier) -> Vec<Space> {
    let mut v = vec![];
    // S1: two replicas, one task, full update alphabet
    let mut s = SyncSys::new(2);
    s.updates = std_updates();
    v.push(Space { name: "R2-full", sys: s, depth: if tier == Tier::Quick { 7 } else { 9 } });
    // S2: three replicas, smaller update alphabet
    let mut s = SyncSys::new(3);
    s.updates = small_updates();
    v.push(Space { name: "R3-small", sys: s, depth: if tier == Tier::Quick { 6 } else { 8 } });
    // commits of several operations (create+set; delete+create+set)
    let mut s = SyncSys::new(2);
    s.updates = vec![("p".into(), Some("a".into()), 1), ("p".into(), Some("b".into()), 2), ("p".into(), None, 2)];
    s.batches = true;
    v.push(Space { name: "R2-batches", sys: s, depth: if tier == Tier::Quick { 6 } else { 8 } });
    // updates whose recorded old value is wrong (the caller held a stale copy): old values never
    // leave the replica and must not influence what is stored, sent or converged to
    let mut s = SyncSys::new(2);
    s.updates = vec![("p".into(), Some("a".into()), 1), ("p".into(), Some("b".into()), 2), ("p".into(), None, 2)];
    s.stale_old = true;
    v.push(Space { name: "R2-stale-old-values", sys: s, depth: if tier == Tier::Quick { 6 } else { 8 } });
    // commits that contain invalid operations (redundant create, update of a missing task)
    let mut s = SyncSys::new(2);
    s.updates = vec![("p".into(), Some("a".into()), 1), ("q".into(), None, 4)];
    s.messy = true;
    v.push(Space { name: "R2-invalid-ops", sys: s, depth: if tier == Tier::Quick { 6 } else { 8 } });
    // S3 (last of the quick spaces: it gets all the budget the cheap ones leave): multi-version syncs: 1 MB operation, two replicas, tiny alphabet
    let mut s = SyncSys::new(2);
    s.updates = vec![("p".into(), Some("a".into()), 1), ("p".into(), Some("b".into()), 2), ("q".into(), Some("a".into()), 1)];
    s.big_budget = if tier == Tier::Quick { 1 } else { 2 };
    s.deletes = tier != Tier::Quick;
    v.push(Space { name: "R2-big", sys: s, depth: if tier == Tier::Quick { 8 } else { 10 } });
    if tier == Tier::Thorough {
        let mut s = SyncSys::new(4);
        s.updates = vec![("p".into(), Some("a".into()), 1), ("p".into(), Some("b".into()), 2)];
        v.push(Space { name: "R4-tiny", sys: s, depth: 5 });
        let mut s = SyncSys::new(2);
        s.tasks = vec![1, 2];
        s.updates = small_updates();
        v.push(Space { name: "R2-two-tasks", sys: s, depth: 6 });
        let mut s = SyncSys::new(3);
        s.updates = vec![("p".into(), Some("a".into()), 1), ("p".into(), Some("b".into()), 2)];
        s.batches = true;
        v.push(Space { name: "R3-batches", sys: s, depth: 6 });
        let mut s = SyncSys::new(3);
        s.updates = vec![("p".into(), Some("a".into()), 1), ("p".into(), Some("b".into()), 2)];
        s.big_budget = 1;
        s.deletes = false;
        v.push(Space { name: "R3-big", sys: s, depth: 6 });
    }
    v
}

pub fn trace_json(tr: &[Act]) -> serde_json::Value {
    json!(tr.iter().map(|a| json!({"act": a, "text": act_str(a)})).collect::<Vec<_>>())
}

/// Re-execute a trace on a fresh world, printing each step; returns the first error.
pub fn replay_trace(sys: &SyncSys, tr: &[Act], verbose: bool) -> Result<(), String> {
    let mut w = sys.init();
    for (i, a) in tr.iter().enumerate() {
        let r = sys.step(&w, a);
        if verbose {
            println!("step {i}: {}", act_str(a));
        }
        match r {
            Err(e) => return Err(e),
            Ok(nw) => {
                w = nw;
                if verbose {
                    for (j, o) in world_obs(&w).iter().enumerate() {
                        println!("    R{j}: {}", o.canon());
                    }
                    println!("    chain: {} versions, {} snapshots", w.chain.versions.len(), w.chain.snapshots.len());
                }
            }
        }
    }
    sys.check(&w, tr).map(|_| ())
}

pub fn run_spaces(prop: &str, spaces: Vec<Space>, opts: &Opts, rep: &Report) {
    let spaces: Vec<Space> = match std::env::var("TCMC_SPACE") {
        Ok(f) => spaces.into_iter().filter(|s| s.name == f).collect(),
        Err(_) => spaces,
    };
    let n = spaces.len();
    for (i, sp) in spaces.into_iter().enumerate() {
        let remaining = (opts.budget_s - rep.elapsed()).max(5.0);
        let share = remaining / (n - i) as f64;
        let deadline = std::time::Instant::now() + std::time::Duration::from_secs_f64(share);
        let cfg = StateCfg {
            max_depth: sp.depth,
            deadline: Some(deadline),
            max_found: 6,
            first_depth: 1,
            tolerate: vec![crate::props::syncworld::KNOWN_INVALID_REBASE.to_string()],
        };
        let (st, found, samples) = explore(&sp.sys, &cfg);
        rep.add("states", st.states);
        rep.add("transitions", st.transitions);
        rep.add("traces_validated_against_impl", st.transitions);
        rep.add("oracle_evaluations", st.checks);
        rep.add("distinct_nontrivial", st.nontrivial);
        rep.add("syncs_executed", sp.sys.syncs.load(Ordering::Relaxed));
        rep.add("multi_version_syncs", sp.sys.multi_version.load(Ordering::Relaxed));
        rep.add("snapshots_checked", sp.sys.snapshots_checked.load(Ordering::Relaxed));
        rep.add("segments_checked", sp.sys.segments_checked.load(Ordering::Relaxed));
        rep.add("fresh_replicas_from_snapshot", sp.sys.fresh_from_snapshot.load(Ordering::Relaxed));
        rep.add("urgency_met_but_no_snapshot", sp.sys.urgency_met_without_snapshot.load(Ordering::Relaxed));
        rep.set(
            &format!("space_{}", sp.name),
            json!({"replicas": sp.sys.r, "tasks": sp.sys.tasks.len(), "updates": sp.sys.updates.len(), "big_budget": sp.sys.big_budget,
                   "depth_requested": sp.depth, "depth_completed": st.depth_completed, "capped": st.capped,
                   "states": st.states, "transitions": st.transitions, "nontrivial_states": st.nontrivial}),
        );
        if st.capped {
            rep.set("exhaustive", false);
        }
        println!(
            "[{prop}] space {}: depth {} completed (requested {}), {} states, {} transitions, {} nontrivial, capped={} ({:.1}s)",
            sp.name, st.depth_completed, sp.depth, st.states, st.transitions, st.nontrivial, st.capped, rep.elapsed()
        );
        for tr in samples.into_iter().take(2) {
            rep.sample(json!({"space": sp.name, "history": tr.iter().map(act_str).collect::<Vec<_>>()}));
        }
        for f in found {
            // replay twice for determinism before reporting
            let note = crate::util::confirm_or_exit(prop, &f.what, || replay_trace(&sp.sys, &f.trace, false).err());
            let class = f.what.split(':').next().unwrap_or("").to_string();
            rep.violation(Violation::new(
                format!("{}:{}", class, sp.name),
                format!("{}{note}", f.what),
                json!({"kind": "syncworld-trace", "property": prop, "space": sp.name, "trace": trace_json(&f.trace), "observed": f.what}),
            ));
        }
    }
}

/// Long pending lists of small operations (well below the one-megabyte threshold, well above any
/// plausible count threshold): replica 0 holds 1500 unsent operations on 500 tasks, replica 1
/// 1200 on 400 tasks of which 300 are shared (conflicting creates, same-property updates with
/// earlier / later timestamps, a deletion against updates). Both rebases are then 10^3 x 10^3.
/// Oracle: quiescence, identical replicas, chain replay - and the state the reference model
/// gives for the same operations applied in the order the server stored them.
fn many_small_operations(rep: &Report) {
    use taskchampion::Operation;
    let t = |i: u32| uuid::Uuid::from_u128(0x7A5C_0000_0000_0000_0000_0000_0001_0000u128 + i as u128);
    let up = |i: u32, p: &str, v: &str, secs: i64| Operation::Update { uuid: t(i), property: p.into(), old_value: None, value: Some(v.into()), timestamp: ts(secs) };
    for order in [[0usize, 1], [1, 0]] {
        let mut w = World::new(2);
        let mut a = vec![];
        for i in 0..500u32 {
            a.push(Operation::Create { uuid: t(i) });
            a.push(up(i, "p", "fromA", 2));
            a.push(up(i, "q", "onlyA", 2));
        }
        let mut b = vec![];
        for i in 200..600u32 {
            b.push(Operation::Create { uuid: t(i) });
            // earlier than A's on the lower half of the overlap, later on the upper half
            b.push(up(i, "p", "fromB", if i < 350 { 1 } else { 3 }));
            if i % 50 == 0 {
                b.push(Operation::Delete { uuid: t(i), old_task: Default::default() });
            } else {
                b.push(up(i, "r", "onlyB", 1));
            }
        }
        let (na, nb) = (a.len(), b.len());
        crate::util::block_on(crate::world::replicas::with_replica(&mut w.reps[0], crate::world::proxy::Ctl::new(), async |r| r.commit_operations(a).await)).expect("commit");
        crate::util::block_on(crate::world::replicas::with_replica(&mut w.reps[1], crate::world::proxy::Ctl::new(), async |r| r.commit_operations(b).await)).expect("commit");
        for i in 0..2 {
            w.obs[i] = std::sync::Arc::new(obs_of(&mut w.reps[i]));
        }
        let res: Result<(), String> = (|| {
            for &i in &order {
                do_sync(&mut w, i, Urg::None, false, None, None).result.map_err(|e| format!("sync-failed: {e}"))?;
            }
            let (tasks, _) = quiesce(&w)?;
            // the documented winners, independent of the order
            for i in 0..600u32 {
                let got = tasks.get(&t(i));
                let deleted = (200..600).contains(&i) && i % 50 == 0;
                if deleted {
                    if got.is_some() {
                        return Err(format!("wrong-winner: task {i} was deleted on one replica and must be gone, but holds {got:?}"));
                    }
                    continue;
                }
                let want_p = if i < 200 { "fromA" } else if i >= 500 { "fromB" } else if i < 350 { "fromA" } else { "fromB" };
                let m = got.ok_or_else(|| format!("lost-task: task {i} is missing after both replicas synchronized"))?;
                if m.get("p").map(|s| s.as_str()) != Some(want_p) || (i < 500) != m.contains_key("q") || (i >= 200) != m.contains_key("r") {
                    return Err(format!("wrong-winner: task {i} ends as {m:?} (p should be {want_p})"));
                }
            }
            Ok(())
        })();
        rep.add("many_small_operations_scenarios", 1);
        rep.add("oracle_evaluations", 1);
        if let Err(e) = res {
            let class = e.split(':').next().unwrap_or("").to_string();
            rep.violation(Violation::new(
                format!("{class}:many-small-operations"),
                format!("{e} [replica 0 with {na} pending operations on 500 tasks, replica 1 with {nb} on 400 tasks (300 shared), first syncs in order {order:?}]"),
                json!({"kind": "c01-many-small-operations", "order": order}),
            ));
        }
    }
}

pub fn run(opts: &Opts) -> i32 {
    let rep = Report::new("C01", "model_checking", opts);
    rep.set("exhaustive", true);
    rep.set("rule", "states = canonical (replica storages sorted, chain) reached by every history of create/update/delete/1MB-update/sync actions up to the depth bound; every transition executes the real Replica; oracle on every state: replica invariant + quiescence convergence + chain replay; plus, from every state of a small two-replica space, both replicas syncing at once under every interleaving of their server requests; non-trivial = a state whose quiescing run has to rebase pending operations over unseen versions, or that contains a sync that produced >= 2 versions");
    rep.assume("harness chain server implements docs/src/sync-protocol.md (accept iff parent == latest or chain empty)");
    rep.assume("timestamps from {1,2} s, values from {a,b,absent}, one oversized (1 000 001 byte) value, 1-2 tasks, 2-4 replicas");
    let sp = if opts.replay.is_some() { vec![] } else { spaces(opts.tier) };
    run_spaces("C01", sp, opts, &rep);
    if opts.replay.is_none() && std::env::var("TCMC_SPACE").is_err() {
        // synchronizations that overlap in time are histories too: from every state of a small
        // two-replica space, both replicas sync at once, under every interleaving of their server
        // requests (engine and scenario of C02; one replica's version is then rejected)
        let q = opts.tier == Tier::Quick;
        let starts = super::c02::start_states(2, if q { 4 } else { 5 }, small_updates(), 0, false);
        let deadline = std::time::Instant::now() + std::time::Duration::from_secs_f64((opts.budget_s - rep.elapsed()).max(5.0));
        super::c02::race_space("C01", &rep, opts, "R2-overlapping-syncs", &starts, super::syncworld::Urg::None, if q { 4 } else { 5 }, 2, deadline);
    }
    if opts.replay.is_none() && std::env::var("TCMC_SPACE").is_err() {
        many_small_operations(&rep);
    }
    if opts.replay.is_none() && std::env::var("TCMC_SPACE").is_err() {
        // a never-synchronized replica that holds only pending operations meets a server that
        // offers a snapshot (both storages): it must converge with the others like any replica
        super::c12::pending_only_replica(&rep);
    }
    rep.finish()
}
