//! C15 – the working set lists exactly the pending tasks, with stable numbering (E-STATE).

use crate::explore::state::{explore, StateCfg, Sys};
use crate::util::{Opts, Report, Tier, Violation};
use crate::world::mserver::{ChainState, MServer};
use crate::world::proxy::Ctl;
use crate::world::replicas::{observe, tid, tname, with_replica, Obs};
use crate::world::store::{Kind, Store};
use serde_json::json;
use std::collections::BTreeMap;
use std::sync::atomic::{AtomicU64, Ordering};
use std::sync::{Arc, Mutex};
use taskchampion::{Operation, TaskData};
use uuid::Uuid;

#[derive(Clone, Debug, PartialEq, Eq, Hash, serde::Serialize, serde::Deserialize)]
pub enum Act {
    /// create task t with the given status (pending / recurring / completed) in one commit
    New { t: u8, status: String },
    /// set the status of an existing task
    Status { t: u8, status: String },
    /// remove the task outright (a Delete operation)
    Purge { t: u8 },
    Rebuild { renumber: bool },
    /// undo the last commit (made with an undo point)
    Undo,
    /// a second replica changes task t (status or purge) and both sync
    Remote { t: u8, what: String },
    /// ONE commit with several status changes: a -> pending, b -> pending, a -> completed,
    /// a -> pending (tasks that do not exist are created first)
    Batch { a: u8, b: u8 },
}

#[derive(Clone)]
pub struct State {
    pub store: Store,
    pub other: Store,
    pub chain: ChainState,
    pub obs: Arc<Obs>,
}

pub struct WsSys {
    pub kind: Kind,
    pub ntasks: u8,
    pub remote: bool,
    /// offer the multi-change commits (`Act::Batch`)
    pub batches: bool,
    pub rebuilds: AtomicU64,
    pub rebuilds_with_gone_entry: AtomicU64,
    pub rebuilds_with_gap: AtomicU64,
    pub appends: AtomicU64,
}

fn obs(store: &mut Store) -> Arc<Obs> {
    Arc::new(crate::util::block_on(observe(store)))
}

fn in_ws(status: Option<&String>) -> bool {
    matches!(status.map(|s| s.as_str()), Some("pending") | Some("recurring"))
}

fn ws_str(ws: &[Option<Uuid>]) -> String {
    ws.iter().map(|w| w.map(tname).unwrap_or("-".into())).collect::<Vec<_>>().join(",")
}

fn index_of(ws: &[Option<Uuid>]) -> BTreeMap<Uuid, Vec<usize>> {
    let mut m: BTreeMap<Uuid, Vec<usize>> = BTreeMap::new();
    for (i, w) in ws.iter().enumerate() {
        if let Some(u) = w {
            m.entry(*u).or_default().push(i);
        }
    }
    m
}

/// The statement's obligations after a rebuild from working set `old` to `new`.
pub fn check_rebuild(old: &Obs, new: &Obs, renumber: bool) -> Result<(), String> {
    let ws = &new.ws;
    if ws.first() != Some(&None) {
        return Err(format!("slot0: position 0 of the working set is not empty: [{}]", ws_str(ws)));
    }
    let idx = index_of(ws);
    for (u, is) in &idx {
        if is.len() != 1 {
            return Err(format!("duplicate: task {} is in the working set {} times: [{}]", tname(*u), is.len(), ws_str(ws)));
        }
        if !in_ws(new.tasks.get(u).and_then(|t| t.get("status"))) {
            return Err(format!(
                "stray-entry: task {} is in the working set [{}] but its status is {:?}",
                tname(*u),
                ws_str(ws),
                new.tasks.get(u).map(|t| t.get("status"))
            ));
        }
    }
    for (u, t) in &new.tasks {
        if in_ws(t.get("status")) && !idx.contains_key(u) {
            return Err(format!("missing-entry: task {} is {} but not in the working set [{}]", tname(*u), t["status"], ws_str(ws)));
        }
    }
    let old_idx = index_of(&old.ws);
    // survivors: tasks that were in the old working set and still belong
    let survivors: Vec<(usize, Uuid)> = old
        .ws
        .iter()
        .enumerate()
        .filter_map(|(i, w)| w.map(|u| (i, u)))
        .filter(|(_, u)| idx.contains_key(u) && old_idx[u].len() == 1)
        .collect();
    if !renumber {
        for (i, u) in &survivors {
            if idx[u][0] != *i {
                return Err(format!(
                    "renumbered: without renumbering, task {} moved from {} to {} ([{}] -> [{}])",
                    tname(*u),
                    i,
                    idx[u][0],
                    ws_str(&old.ws),
                    ws_str(ws)
                ));
            }
        }
        let max_survivor = survivors.iter().map(|(i, _)| *i).max().unwrap_or(0);
        for (u, is) in &idx {
            if !old_idx.contains_key(u) && is[0] <= max_survivor {
                return Err(format!(
                    "newcomer-inside: newcomer {} got number {} which is not after all numbers in use (max {}) ([{}] -> [{}])",
                    tname(*u),
                    is[0],
                    max_survivor,
                    ws_str(&old.ws),
                    ws_str(ws)
                ));
            }
        }
    } else {
        let n = idx.len();
        for (k, w) in ws.iter().enumerate().skip(1) {
            if w.is_none() {
                return Err(format!("gap: after renumbering position {k} is empty: [{}]", ws_str(ws)));
            }
        }
        if ws.len() != n + 1 {
            return Err(format!("gap: after renumbering the working set is [{}] for {n} tasks", ws_str(ws)));
        }
        let order: Vec<usize> = survivors.iter().map(|(_, u)| idx[u][0]).collect();
        if order.windows(2).any(|w| w[0] >= w[1]) {
            return Err(format!("reordered: renumbering changed the relative order of surviving tasks ([{}] -> [{}])", ws_str(&old.ws), ws_str(ws)));
        }
    }
    Ok(())
}

impl WsSys {
    pub fn new(kind: Kind, ntasks: u8, remote: bool) -> Self {
        WsSys {
            kind,
            ntasks,
            remote,
            batches: false,
            rebuilds: AtomicU64::new(0),
            rebuilds_with_gone_entry: AtomicU64::new(0),
            rebuilds_with_gap: AtomicU64::new(0),
            appends: AtomicU64::new(0),
        }
    }

    fn sync(&self, store: &mut Store, chain: &mut ChainState) -> Result<(), String> {
        let st = Arc::new(Mutex::new(std::mem::take(chain)));
        let mut server = MServer::new(st.clone(), 0).boxed();
        let r = crate::util::block_on(with_replica(store, Ctl::new(), async |r| r.sync(&mut server, false).await.map_err(|e| format!("sync-failed: {e:#}"))));
        drop(server);
        *chain = std::mem::take(&mut *st.lock().unwrap());
        r
    }

    fn commit(&self, store: &mut Store, t: u8, create: bool, status: Option<&str>, purge: bool) -> Result<(), String> {
        let status = status.map(|s| s.to_string());
        crate::util::block_on(with_replica(store, Ctl::new(), async |r| {
            let mut ops_ = vec![Operation::UndoPoint];
            let mut td = if create {
                TaskData::create(tid(t), &mut ops_)
            } else {
                r.get_task_data(tid(t)).await.map_err(|e| e.to_string())?.ok_or("task missing")?
            };
            if purge {
                td.delete(&mut ops_);
            } else if let Some(s) = status {
                td.update("status", Some(s), &mut ops_);
            }
            r.commit_operations(ops_).await.map_err(|e| format!("commit-failed: {e:#}"))
        }))
    }
}

impl Sys for WsSys {
    type State = State;
    type Action = Act;

    fn init(&self) -> State {
        let mut store = Store::fresh(self.kind);
        let o = obs(&mut store);
        State {
            store,
            other: Store::fresh(Kind::Mem),
            chain: ChainState::default(),
            obs: o,
        }
    }

    fn actions(&self, s: &State, _left: usize) -> Vec<Act> {
        let mut v = vec![];
        for t in 1..=self.ntasks {
            match s.obs.tasks.get(&tid(t)) {
                None => {
                    v.push(Act::New { t, status: "pending".into() });
                    if t == 1 {
                        v.push(Act::New { t, status: "recurring".into() });
                        v.push(Act::New { t, status: "completed".into() });
                    }
                    if t == 2 {
                        // a status this version does not know (older data, newer versions)
                        v.push(Act::New { t, status: "waiting".into() });
                    }
                }
                Some(task) => {
                    let cur = task.get("status").cloned().unwrap_or_default();
                    for st in ["pending", "completed", "deleted"] {
                        if cur != st {
                            v.push(Act::Status { t, status: st.into() });
                        }
                    }
                    if t == 2 {
                        for st in ["recurring", "waiting"] {
                            if cur != st {
                                v.push(Act::Status { t, status: st.into() });
                            }
                        }
                    }
                    v.push(Act::Purge { t });
                    if self.remote {
                        v.push(Act::Remote { t, what: "completed".into() });
                        v.push(Act::Remote { t, what: "purge".into() });
                    }
                }
            }
        }
        if self.batches {
            v.push(Act::Batch { a: 1, b: 2 });
            v.push(Act::Batch { a: 2, b: 1 });
        }
        v.push(Act::Rebuild { renumber: false });
        v.push(Act::Rebuild { renumber: true });
        if s.obs.unsynced.iter().any(|o| !o.is_undo_point()) {
            v.push(Act::Undo);
        }
        v
    }

    fn step(&self, s: &State, a: &Act) -> Result<State, String> {
        let mut n = s.clone();
        let before = s.obs.clone();
        match a {
            Act::New { t, status } => {
                self.commit(&mut n.store, *t, true, Some(status), false)?;
                n.obs = obs(&mut n.store);
                check_commit(&before, &n.obs, *t, self)?;
            }
            Act::Status { t, status } => {
                self.commit(&mut n.store, *t, false, Some(status), false)?;
                n.obs = obs(&mut n.store);
                check_commit(&before, &n.obs, *t, self)?;
            }
            Act::Purge { t } => {
                self.commit(&mut n.store, *t, false, None, true)?;
                n.obs = obs(&mut n.store);
                check_commit(&before, &n.obs, *t, self)?;
            }
            Act::Batch { a, b } => {
                let (a, b) = (*a, *b);
                crate::util::block_on(with_replica(&mut n.store, Ctl::new(), async |r| {
                    let mut ops_ = vec![Operation::UndoPoint];
                    let mut get = async |t: u8, ops_: &mut Vec<Operation>| -> Result<TaskData, String> {
                        match r.get_task_data(tid(t)).await.map_err(|e| e.to_string())? {
                            Some(td) => Ok(td),
                            None => Ok(TaskData::create(tid(t), ops_)),
                        }
                    };
                    let mut ta = get(a, &mut ops_).await?;
                    let mut tb = get(b, &mut ops_).await?;
                    ta.update("status", Some("pending".into()), &mut ops_);
                    tb.update("status", Some("pending".into()), &mut ops_);
                    ta.update("status", Some("completed".into()), &mut ops_);
                    ta.update("status", Some("pending".into()), &mut ops_);
                    r.commit_operations(ops_).await.map_err(|e| format!("commit-failed: {e:#}"))
                }))?;
                n.obs = obs(&mut n.store);
                check_batch_commit(&before, &n.obs, &[a, b])?;
            }
            Act::Rebuild { renumber } => {
                let rn = *renumber;
                crate::util::block_on(with_replica(&mut n.store, Ctl::new(), async |r| {
                    r.rebuild_working_set(rn).await.map_err(|e| format!("rebuild-failed: {e:#}"))
                }))?;
                n.obs = obs(&mut n.store);
                self.note_rebuild(&before);
                check_rebuild(&before, &n.obs, rn)?;
            }
            Act::Undo => {
                let ok = crate::util::block_on(with_replica(&mut n.store, Ctl::new(), async |r| {
                    let u = r.get_undo_operations().await.map_err(|e| e.to_string())?;
                    r.commit_reversed_operations(u).await.map_err(|e| format!("undo-failed: {e:#}"))
                }))?;
                n.obs = obs(&mut n.store);
                if ok {
                    // an undo rebuilds without renumbering
                    self.note_rebuild(&before);
                    check_rebuild(&before, &n.obs, false)?;
                }
            }
            Act::Remote { t, what } => {
                // first make sure both replicas are in sync, then the other replica changes the
                // task, syncs, and this replica syncs (which rebuilds without renumbering)
                self.sync(&mut n.store, &mut n.chain)?;
                self.sync(&mut n.other, &mut n.chain)?;
                let mid = obs(&mut n.store);
                let mut other_has = crate::util::block_on(observe(&mut n.other)).tasks.contains_key(&tid(*t));
                if other_has {
                    if what == "purge" {
                        self.commit(&mut n.other, *t, false, None, true)?;
                    } else {
                        self.commit(&mut n.other, *t, false, Some(what), false)?;
                    }
                } else {
                    other_has = false;
                }
                let _ = other_has;
                self.sync(&mut n.other, &mut n.chain)?;
                self.sync(&mut n.store, &mut n.chain)?;
                n.obs = obs(&mut n.store);
                self.note_rebuild(&mid);
                check_rebuild(&mid, &n.obs, false)?;
            }
        }
        Ok(n)
    }

    fn canon(&self, s: &State) -> u128 {
        let statuses: Vec<(Uuid, Option<String>)> = s.obs.tasks.iter().map(|(u, t)| (*u, t.get("status").cloned())).collect();
        let undoable = s.obs.unsynced.iter().any(|o| !o.is_undo_point());
        // the undo stack matters for Undo: include the shapes of unsynced ops
        let ops_: Vec<String> = s
            .obs
            .unsynced
            .iter()
            .map(|o| match o {
                Operation::Create { uuid } => format!("C{uuid}"),
                Operation::Delete { uuid, old_task } => format!("D{uuid}{:?}", old_task.get("status")),
                Operation::Update { uuid, property, old_value, value, .. } => format!("U{uuid}{property}{old_value:?}{value:?}"),
                Operation::UndoPoint => "P".into(),
            })
            .collect();
        crate::util::h128(&(statuses, s.obs.ws.clone(), undoable, ops_))
    }

    fn check(&self, s: &State, _trace: &[Act]) -> Result<bool, String> {
        // non-trivial: the working set has a gap or an entry whose task is gone / not pending
        let ws = &s.obs.ws;
        let gap = ws.iter().skip(1).any(|w| w.is_none());
        let stale = ws.iter().flatten().any(|u| !in_ws(s.obs.tasks.get(u).and_then(|t| t.get("status"))));
        Ok(gap || stale)
    }
}

impl WsSys {
    fn note_rebuild(&self, before: &Obs) {
        self.rebuilds.fetch_add(1, Ordering::Relaxed);
        if before.ws.iter().flatten().any(|u| !before.tasks.contains_key(u)) {
            self.rebuilds_with_gone_entry.fetch_add(1, Ordering::Relaxed);
        }
        if before.ws.iter().skip(1).any(|w| w.is_none()) {
            self.rebuilds_with_gap.fetch_add(1, Ordering::Relaxed);
        }
    }
}

/// A commit that makes a task pending/recurring appends it after all numbers in use and moves
/// nothing; any other commit leaves the working set alone.
fn check_commit(before: &Obs, after: &Obs, t: u8, sys: &WsSys) -> Result<(), String> {
    let u = tid(t);
    let was = in_ws(before.tasks.get(&u).and_then(|x| x.get("status")));
    let is = in_ws(after.tasks.get(&u).and_then(|x| x.get("status")));
    let old_idx = index_of(&before.ws);
    let new_idx = index_of(&after.ws);
    for (v, is_) in &old_idx {
        if new_idx.get(v) != Some(is_) {
            return Err(format!(
                "commit-moved: a commit changed the number of {} ([{}] -> [{}])",
                tname(*v),
                ws_str(&before.ws),
                ws_str(&after.ws)
            ));
        }
    }
    if !was && is {
        sys.appends.fetch_add(1, Ordering::Relaxed);
        let already = old_idx.contains_key(&u);
        let Some(pos) = new_idx.get(&u) else {
            return Err(format!("not-appended: task {} became pending but was not added to the working set [{}]", tname(u), ws_str(&after.ws)));
        };
        if !already {
            let max_used = before.ws.iter().enumerate().filter(|(_, w)| w.is_some()).map(|(i, _)| i).max().unwrap_or(0);
            if pos.len() != 1 || pos[0] <= max_used {
                return Err(format!(
                    "not-at-end: task {} became pending and got number {:?}, not after all numbers in use ([{}] -> [{}])",
                    tname(u),
                    pos,
                    ws_str(&before.ws),
                    ws_str(&after.ws)
                ));
            }
        }
    } else {
        // nothing may be added
        // (a commit that adds some other task is outside the statement; the next rebuild's
        // "no other task" obligation covers what matters)
        let _ = (&new_idx, &old_idx);
    }
    Ok(())
}

/// A commit that made several tasks pending: nothing that was in the working set moves, every
/// task that became pending is there exactly once, newcomers come after every number in use.
fn check_batch_commit(before: &Obs, after: &Obs, tasks: &[u8]) -> Result<(), String> {
    if after.ws.len() < before.ws.len() || after.ws[..before.ws.len()] != before.ws[..] {
        return Err(format!("moved: a commit changed existing working-set entries [{}] -> [{}]", ws_str(&before.ws), ws_str(&after.ws)));
    }
    let idx = index_of(&after.ws);
    for &t in tasks {
        let u = tid(t);
        let n = idx.get(&u).map(|v| v.len()).unwrap_or(0);
        if in_ws(after.tasks.get(&u).and_then(|m| m.get("status"))) && n != 1 {
            return Err(format!("not-appended: task {} is pending after the commit and appears {n} times in the working set [{}] (was [{}])", tname(u), ws_str(&after.ws), ws_str(&before.ws)));
        }
    }
    for (u, v) in &idx {
        if v.len() > 1 {
            return Err(format!("duplicate: task {} is in the working set {} times after a commit: [{}]", tname(*u), v.len(), ws_str(&after.ws)));
        }
    }
    Ok(())
}

pub fn replay_trace(sys: &WsSys, tr: &[Act], verbose: bool) -> Result<(), String> {
    let mut s = sys.init();
    for a in tr {
        if verbose {
            println!("{a:?}");
        }
        s = sys.step(&s, a)?;
        if verbose {
            println!("    ws=[{}] statuses={:?}", ws_str(&s.obs.ws), s.obs.tasks.iter().map(|(u, t)| (tname(*u), t.get("status").cloned())).collect::<Vec<_>>());
        }
    }
    Ok(())
}

pub fn run(opts: &Opts) -> i32 {
    let rep = Report::new("C15", "model_checking", opts);
    rep.set("exhaustive", true);
    rep.set("rule", "histories over {create pending/recurring/completed/unknown-status, set status pending/completed/deleted (one task also recurring and an unknown status), purge (Delete), one commit with several status changes of two tasks, rebuild(renumber=false|true), undo, removal/completion arriving by sync from a second replica} on 3-4 tasks, in-memory and SQLite, plus one working set of 300 (thorough 1500) tasks; after every rebuild (explicit, after sync, after undo) the statement's obligations are evaluated against the previous working set; every commit is checked to append newly pending tasks after all numbers in use and move nothing; non-trivial = states whose working set has a gap or an entry whose task is gone or no longer pending");
    let q = opts.tier == Tier::Quick;
    let spaces: Vec<(&str, WsSys, usize)> = vec![
        ("mem-3tasks", WsSys::new(Kind::Mem, 3, false), if q { 7 } else { 9 }),
        ("mem-3tasks-remote", WsSys::new(Kind::Mem, 3, true), if q { 5 } else { 7 }),
        ("mem-4tasks", WsSys::new(Kind::Mem, 4, false), if q { 6 } else { 8 }),
        ("sqlite-3tasks", WsSys::new(Kind::Sqlite, 3, false), if q { 4 } else { 6 }),
        ("mem-2tasks-batches", { let mut s = WsSys::new(Kind::Mem, 2, false); s.batches = true; s }, if q { 6 } else { 8 }),
    ];
    let n = spaces.len();
    for (i, (name, sys, depth)) in spaces.into_iter().enumerate() {
        let remaining = (opts.budget_s - rep.elapsed()).max(3.0);
        let deadline = std::time::Instant::now() + std::time::Duration::from_secs_f64(remaining / (n - i) as f64);
        let cfg = StateCfg { max_depth: depth, deadline: Some(deadline), max_found: 8, first_depth: 1, tolerate: vec![] };
        let (st, found, samples) = explore(&sys, &cfg);
        rep.add("states", st.states);
        rep.add("transitions", st.transitions);
        rep.add("traces_validated_against_impl", st.transitions);
        rep.add("distinct_nontrivial", st.nontrivial);
        rep.add("rebuilds_checked", sys.rebuilds.load(Ordering::Relaxed));
        rep.add("rebuilds_with_vanished_task_entry", sys.rebuilds_with_gone_entry.load(Ordering::Relaxed));
        rep.add("rebuilds_from_working_set_with_gap", sys.rebuilds_with_gap.load(Ordering::Relaxed));
        rep.add("appends_checked", sys.appends.load(Ordering::Relaxed));
        rep.set(&format!("space_{name}"), json!({"depth_requested": depth, "depth_completed": st.depth_completed, "states": st.states, "transitions": st.transitions, "capped": st.capped}));
        if st.capped {
            rep.set("exhaustive", false);
        }
        println!("[C15] {name}: depth {} of {depth}, {} states, {} transitions, capped={} ({:.1}s)", st.depth_completed, st.states, st.transitions, st.capped, rep.elapsed());
        if let Some(t) = samples.first() {
            rep.sample(json!({"space": name, "history": t}));
        }
        for f in found {
            let note = crate::util::confirm_or_exit("C15", &f.what, || replay_trace(&sys, &f.trace, false).err());
            rep.violation(Violation::new(
                format!("{}:{name}", f.what.split(':').next().unwrap_or("")),
                format!("{}{note}", f.what),
                json!({"kind": "c15-trace", "space": name, "storage": sys.kind, "ntasks": sys.ntasks, "remote": sys.remote, "batches": sys.batches, "trace": f.trace, "observed": f.what}),
            ));
        }
    }
    // a large working set: 300 (thorough 1500) pending tasks created over three commits, every 3rd
    // completed, every 7th purged; then rebuild without and with renumbering, on both storages
    for kind in [Kind::Mem, Kind::Sqlite] {
        let n = if q { 300 } else { 1500 };
        match large_ws(kind, n) {
            Ok(k) => rep.add("large_working_set_rebuilds_checked", k),
            Err(e) => rep.violation(Violation::new(format!("{}:large:{kind:?}", e.split(':').next().unwrap_or("")), e, json!({"kind": "c15-large", "storage": kind, "n": n}))),
        }
    }
    println!("[C15] large working sets rebuilt and checked ({:.1}s)", rep.elapsed());
    rep.finish()
}

fn large_ws(kind: Kind, n: usize) -> Result<u64, String> {
    use crate::world::replicas::with_replica;
    use taskchampion::Operation;
    let id = |i: usize| Uuid::from_u128(0x15_0000_0000 + i as u128);
    let ts = super::syncworld::ts(2);
    let upd = |i: usize, old: Option<&str>, v: &str| Operation::Update { uuid: id(i), property: "status".into(), old_value: old.map(|s| s.to_string()), value: Some(v.into()), timestamp: ts };
    let mut st = Store::fresh(kind);
    let mut checked = 0;
    let commit = |st: &mut Store, o: Vec<Operation>| crate::util::block_on(with_replica(st, crate::world::proxy::Ctl::new(), async |r| r.commit_operations(o).await.map_err(|e| format!("commit-failed: {e:#}"))));
    for part in 0..3 {
        let mut o = vec![];
        for i in (0..n).filter(|i| i % 3 == part) {
            o.push(Operation::Create { uuid: id(i) });
            o.push(upd(i, None, "pending"));
        }
        let before = obs(&mut st);
        commit(&mut st, o)?;
        let after = obs(&mut st);
        // appended after everything in use, in commit order, nothing moved
        if after.ws[..before.ws.len()] != before.ws[..] {
            return Err("append-moved: a commit of new pending tasks moved existing working-set entries".into());
        }
        let added: Vec<Uuid> = after.ws[before.ws.len()..].iter().flatten().copied().collect();
        let want: Vec<Uuid> = (0..n).filter(|i| i % 3 == part).map(id).collect();
        if added != want {
            return Err(format!("append-order: {} new pending tasks were appended as {} entries (or in another order than they were made pending)", want.len(), added.len()));
        }
    }
    let mut o = vec![];
    for i in (0..n).step_by(3) {
        o.push(upd(i, Some("pending"), "completed"));
    }
    for i in (1..n).step_by(7) {
        o.push(Operation::Delete { uuid: id(i), old_task: Default::default() });
    }
    commit(&mut st, o)?;
    for renumber in [false, true] {
        let before = obs(&mut st);
        crate::util::block_on(with_replica(&mut st, crate::world::proxy::Ctl::new(), async |r| r.rebuild_working_set(renumber).await.map_err(|e| format!("rebuild-failed: {e:#}"))))?;
        st.reopen();
        let after = obs(&mut st);
        check_rebuild(&before, &after, renumber).map_err(|e| format!("{e} [working set of {} entries, renumber={renumber}]", before.ws.len()))?;
        checked += 1;
    }
    Ok(checked)
}

pub fn replay(case: &serde_json::Value) -> Result<(), String> {
    let kind: Kind = serde_json::from_value(case["storage"].clone()).map_err(|e| e.to_string())?;
    let sys = WsSys::new(kind, case["ntasks"].as_u64().unwrap_or(3) as u8, case["remote"].as_bool().unwrap_or(false));
    let tr: Vec<Act> = serde_json::from_value(case["trace"].clone()).map_err(|e| e.to_string())?;
    replay_trace(&sys, &tr, true)
}
