//! C16 – SQLite and in-memory storage are observationally equivalent and persistent
//! (E-DIFF: every StorageTxn call script up to a depth, executed in lock step on both).

use crate::util::{Opts, Report, Tier, Violation};
use crate::world::store::fresh_dir;
use rayon::prelude::*;
use serde_json::json;
use std::collections::BTreeMap;
use std::path::{Path, PathBuf};
use taskchampion::storage::inmemory::InMemoryStorage;
use taskchampion::storage::{AccessMode, Storage, StorageTxn, TaskMap};
use taskchampion::{Operation, SqliteStorage};
use uuid::Uuid;

#[derive(Clone, Copy, Debug, PartialEq, Eq, Hash, serde::Serialize, serde::Deserialize)]
pub enum Call {
    GetTask(u8),
    CreateTask(u8),
    SetTask(u8, u8),
    DeleteTask(u8),
    AllTasks,
    AllUuids,
    Pending,
    BaseVersion,
    SetBase(u8),
    TaskOps(u8),
    Unsynced,
    NumUnsynced,
    AddOp(u8),
    RemoveOp(u8),
    SyncComplete,
    GetWs,
    AddWs(u8),
    SetWs(u8, u8), // index, 0 = None else uuid number
    ClearWs,
    IsEmpty,
    Commit,
    Abandon,
    Reopen,
}

fn u(n: u8) -> Uuid {
    Uuid::from_u128(0x16_0000 + n as u128)
}

fn map(n: u8) -> TaskMap {
    let pairs: Vec<(&str, &str)> = match n {
        0 => vec![],
        1 => vec![("k", "v")],
        _ => vec![("ключ", "значение \" ' \\ \u{1F389}"), ("status", "pending"), ("", "")],
    };
    pairs.into_iter().map(|(a, b)| (a.to_string(), b.to_string())).collect()
}

fn op(n: u8) -> Operation {
    let ts = super::syncworld::ts(7);
    match n {
        0 => Operation::Create { uuid: u(1) },
        1 => Operation::Update { uuid: u(1), property: "p".into(), old_value: None, value: Some("é\u{0}".into()), timestamp: ts },
        2 => Operation::Delete { uuid: u(2), old_task: map(1) },
        // a deleted task with many properties (a fresh hash map every time it is built)
        4 => Operation::Delete { uuid: u(1), old_task: (0..8).map(|i| (format!("key{i}"), format!("value {i} \u{e9}"))).collect() },
        _ => Operation::UndoPoint,
    }
}

/// Normalised result of one call.
#[derive(Debug, Clone, PartialEq, Eq)]
pub enum Res {
    Err,
    Unit,
    Bool(bool),
    Num(usize),
    Uuid(Uuid),
    Task(Option<BTreeMap<String, String>>),
    Tasks(Vec<(Uuid, BTreeMap<String, String>)>),
    Uuids(Vec<Uuid>),
    Ops(Vec<Operation>),
    Ws(Vec<Option<Uuid>>),
    Skipped,
}

fn norm_tasks(v: Vec<(Uuid, TaskMap)>) -> Res {
    let mut v: Vec<(Uuid, BTreeMap<String, String>)> = v.into_iter().map(|(a, m)| (a, m.into_iter().collect())).collect();
    v.sort();
    Res::Tasks(v)
}

async fn do_call(t: &mut (dyn StorageTxn + Send), c: Call) -> Res {
    fn r<T>(x: Result<T, taskchampion::Error>, f: impl FnOnce(T) -> Res) -> Res {
        match x {
            Ok(v) => f(v),
            Err(_) => Res::Err,
        }
    }
    match c {
        Call::GetTask(n) => r(t.get_task(u(n)).await, |m| Res::Task(m.map(|m| m.into_iter().collect()))),
        Call::CreateTask(n) => r(t.create_task(u(n)).await, Res::Bool),
        Call::SetTask(n, m) => r(t.set_task(u(n), map(m)).await, |_| Res::Unit),
        Call::DeleteTask(n) => r(t.delete_task(u(n)).await, Res::Bool),
        Call::AllTasks => r(t.all_tasks().await, norm_tasks),
        Call::AllUuids => r(t.all_task_uuids().await, |mut v| {
            v.sort();
            Res::Uuids(v)
        }),
        Call::Pending => r(t.get_pending_tasks().await, norm_tasks),
        Call::BaseVersion => r(t.base_version().await, Res::Uuid),
        Call::SetBase(n) => r(t.set_base_version(u(100 + n)).await, |_| Res::Unit),
        Call::TaskOps(n) => r(t.get_task_operations(u(n)).await, Res::Ops),
        Call::Unsynced => r(t.unsynced_operations().await, Res::Ops),
        Call::NumUnsynced => r(t.num_unsynced_operations().await, Res::Num),
        Call::AddOp(n) => r(t.add_operation(op(n)).await, |_| Res::Unit),
        Call::RemoveOp(n) => r(t.remove_operation(op(n)).await, |_| Res::Unit),
        Call::SyncComplete => r(t.sync_complete().await, |_| Res::Unit),
        Call::GetWs => r(t.get_working_set().await, Res::Ws),
        Call::AddWs(n) => r(t.add_to_working_set(u(n)).await, Res::Num),
        Call::SetWs(i, n) => r(t.set_working_set_item(i as usize, if n == 0 { None } else { Some(u(n)) }).await, |_| Res::Unit),
        Call::ClearWs => r(t.clear_working_set().await, |_| Res::Unit),
        Call::IsEmpty => r(t.is_empty().await, Res::Bool),
        Call::Commit => r(t.commit().await, |_| Res::Unit),
        Call::Abandon | Call::Reopen => Res::Unit,
    }
}

/// Everything observable through a fresh transaction.
async fn observe_all(s: &mut dyn Storage) -> Vec<Res> {
    let mut t = s.txn().await.expect("txn");
    let mut v = vec![];
    for c in [Call::AllTasks, Call::AllUuids, Call::Pending, Call::BaseVersion, Call::Unsynced, Call::NumUnsynced, Call::GetWs, Call::IsEmpty, Call::TaskOps(1), Call::TaskOps(2), Call::GetTask(1), Call::GetTask(2)] {
        v.push(do_call(t.as_mut(), c).await);
    }
    v
}

/// Canonical text of an observation (operations carry hash maps whose print order varies).
fn canon_obs(v: &[Res]) -> Vec<String> {
    v.iter()
        .map(|r| match r {
            Res::Ops(o) => format!("Ops[{}]", o.iter().map(crate::world::replicas::op_str).collect::<Vec<_>>().join("; ")),
            other => format!("{other:?}"),
        })
        .collect()
}

fn wipe(dir: &Path) {
    let con = rusqlite::Connection::open(dir.join("taskchampion.sqlite3")).expect("open for wipe");
    con.busy_timeout(std::time::Duration::from_secs(5)).unwrap();
    con.execute_batch("BEGIN IMMEDIATE; DELETE FROM tasks; DELETE FROM operations; DELETE FROM working_set; DELETE FROM sync_meta; DELETE FROM sqlite_sequence; COMMIT;").expect("wipe");
}

pub struct Pair {
    pub dir: PathBuf,
    pub sql: Option<SqliteStorage>,
    pub mem: InMemoryStorage,
}

impl Pair {
    pub async fn new() -> Pair {
        let dir = fresh_dir("c16");
        let sql = SqliteStorage::new(&dir, AccessMode::ReadWrite, true).await.expect("sqlite");
        Pair { dir, sql: Some(sql), mem: InMemoryStorage::new() }
    }
    pub fn reset(&mut self) {
        wipe(&self.dir);
        self.mem = InMemoryStorage::new();
    }
    pub async fn reopen(&mut self) {
        self.sql = None;
        self.sql = Some(SqliteStorage::new(&self.dir, AccessMode::ReadWrite, false).await.expect("reopen"));
    }
}

impl Drop for Pair {
    fn drop(&mut self) {
        self.sql = None;
        let _ = std::fs::remove_dir_all(&self.dir);
    }
}

/// Execute a script on both storages in lock step. Returns (non-trivial, calls made).
pub async fn run_script(p: &mut Pair, script: &[Call]) -> Result<(bool, usize), String> {
    run_script_opt(p, script, true, 0).await
}

/// Persistence: close and re-open SQLite; nothing may change and the in-memory store still agrees.
async fn persistence_check(p: &mut Pair, script: &[Call]) -> Result<(), String> {
    let before = observe_all(p.sql.as_mut().unwrap()).await;
    p.reopen().await;
    let after = observe_all(p.sql.as_mut().unwrap()).await;
    if before != after {
        return Err(format!("persistence: SQLite returns {after:?} after close and re-open, {before:?} before [script {script:?}]"));
    }
    let m = observe_all(&mut p.mem).await;
    if m != after {
        return Err(format!("visibility: after re-open SQLite holds {after:?} but the in-memory store {m:?} [script {script:?}]"));
    }
    Ok(())
}

/// `observe_from`: transactions that end before this script position are not followed by the
/// full visibility observation (their path was observed when it was first explored).
pub async fn run_script_opt(p: &mut Pair, script: &[Call], persist: bool, observe_from: usize) -> Result<(bool, usize), String> {
    let mut i = 0;
    let mut made = 0;
    let mut wrote = false;
    let mut abandoned_writes = false;
    while i < script.len() {
        if script[i] == Call::Reopen {
            p.reopen().await;
            i += 1;
            continue;
        }
        // one transaction on each store
        let mut wrote_in_txn = false;
        {
            let sql = p.sql.as_mut().unwrap();
            let mut ts = sql.txn().await.map_err(|e| format!("sqlite-txn-failed: {e:#}"))?;
            let mut tm = p.mem.txn().await.map_err(|e| format!("mem-txn-failed: {e:#}"))?;
            while i < script.len() {
                let c = script[i];
                i += 1;
                if c == Call::Reopen {
                    // a re-open ends the transaction (abandons it)
                    i -= 1;
                    break;
                }
                if c == Call::Abandon {
                    break;
                }
                // the documented contract: set_working_set_item only inside the working set
                if let Call::SetWs(idx, _) = c {
                    let len = tm.get_working_set().await.map(|w| w.len()).unwrap_or(0);
                    if idx == 0 || idx as usize >= len {
                        continue;
                    }
                }
                let a = do_call(tm.as_mut(), c).await;
                let b = do_call(ts.as_mut(), c).await;
                made += 1;
                if a != b {
                    let class = match c {
                        Call::AddWs(_) => "return-value:add_to_working_set",
                        Call::GetWs => "working-set",
                        _ => "return-value",
                    };
                    return Err(format!("{class}: {c:?} returned {a:?} on the in-memory storage but {b:?} on SQLite [script {script:?}, call #{}]", i - 1));
                }
                if !matches!(c, Call::GetTask(_) | Call::AllTasks | Call::AllUuids | Call::Pending | Call::BaseVersion | Call::TaskOps(_) | Call::Unsynced | Call::NumUnsynced | Call::GetWs | Call::IsEmpty | Call::Commit) && a != Res::Err {
                    wrote_in_txn = true;
                }
                if c == Call::Commit {
                    if wrote_in_txn {
                        wrote = true;
                    }
                    wrote_in_txn = false;
                    break;
                }
            }
            if wrote_in_txn {
                abandoned_writes = true;
            }
        }
        // visibility after commit / abandonment
        if i <= observe_from && i < script.len() {
            continue;
        }
        let a = observe_all(&mut p.mem).await;
        let b = observe_all(p.sql.as_mut().unwrap()).await;
        if a != b {
            return Err(format!("visibility: after the transaction ended the stores differ: in-memory {a:?} vs SQLite {b:?} [script {script:?}]"));
        }
    }
    // persistence: close and re-open (nothing to persist if nothing was ever committed)
    if !wrote || !persist {
        return Ok((false, made));
    }
    persistence_check(p, script).await?;
    Ok((wrote && abandoned_writes || script.contains(&Call::Reopen) && wrote, made))
}

fn alphabet(full: bool) -> Vec<Call> {
    use Call::*;
    let mut v = vec![
        CreateTask(1), SetTask(1, 2), DeleteTask(1), GetTask(1), AllTasks, Pending, SetBase(1), BaseVersion, AddOp(0), AddOp(1), AddOp(3), AddOp(4), RemoveOp(1), RemoveOp(4), Unsynced, TaskOps(1), SyncComplete, AddWs(1), AddWs(2),
        SetWs(1, 0), SetWs(1, 2), GetWs, ClearWs, IsEmpty, Commit, Abandon,
    ];
    if full {
        v.extend([CreateTask(2), SetTask(2, 1), SetTask(1, 0), DeleteTask(2), GetTask(2), AllUuids, NumUnsynced, AddOp(2), RemoveOp(3), RemoveOp(0), TaskOps(2), SetWs(2, 0), SetWs(2, 1), Reopen]);
    }
    v
}

fn scripts(alpha: &[Call], depth: usize) -> Vec<Vec<Call>> {
    let mut out: Vec<Vec<Call>> = vec![vec![]];
    for _ in 0..depth {
        let mut next = Vec::with_capacity(out.len() * alpha.len());
        for s in &out {
            for c in alpha {
                let mut x = s.clone();
                x.push(*c);
                next.push(x);
            }
        }
        out = next;
    }
    out
}

fn run_scripts(rep: &Report, name: &str, scs: Vec<Vec<Call>>) {
    thread_local! { static PAIR: std::cell::RefCell<Option<Pair>> = const { std::cell::RefCell::new(None) }; }
    let skipped = std::sync::atomic::AtomicU64::new(0);
    let results: Vec<(usize, Result<(bool, usize), String>)> = scs
        .par_iter()
        .enumerate()
        .map(|(i, s)| {
            if rep.over_budget() {
                skipped.fetch_add(1, std::sync::atomic::Ordering::Relaxed);
                return (i, Ok((false, 0)));
            }
            let r = PAIR.with(|cell| {
                crate::util::block_on(async {
                    let mut slot = cell.borrow_mut();
                    if slot.is_none() {
                        *slot = Some(Pair::new().await);
                    }
                    let p = slot.as_mut().unwrap();
                    p.reset();
                    let r = run_script(p, s).await;
                    if r.is_err() {
                        // start from a clean pair after a failure
                        *slot = None;
                    }
                    r
                })
            });
            (i, r)
        })
        .collect();
    let (mut nontrivial, mut calls) = (0u64, 0u64);
    for (i, r) in results {
        match r {
            Ok((nt, n)) => {
                nontrivial += nt as u64;
                calls += n as u64;
            }
            Err(e) => {
                let note = crate::util::confirm_or_exit("C16", &e, || {
                    crate::util::block_on(async {
                        let mut p = Pair::new().await;
                        run_script(&mut p, &scs[i]).await.err()
                    })
                });
                let e = format!("{e}{note}");
                let class = e.split(' ').next().unwrap_or("").trim_end_matches(':').to_string();
                let first_call = e.split(": ").nth(1).and_then(|s| s.split(' ').next()).unwrap_or("").to_string();
                rep.violation(Violation::new(
                    format!("{class}:{}", first_call.split('(').next().unwrap_or("")),
                    e.clone(),
                    json!({"kind": "c16-script", "script": scs[i], "observed": e}),
                ));
            }
        }
    }
    let sk = skipped.load(std::sync::atomic::Ordering::Relaxed);
    if sk > 0 {
        rep.set("exhaustive", false);
    }
    rep.add("states", scs.len() as u64);
    rep.add("transitions", calls);
    rep.add("traces_validated_against_impl", scs.len() as u64 - sk);
    rep.add("distinct_nontrivial", nontrivial);
    rep.set(&format!("space_{name}"), json!({"scripts": scs.len(), "calls_compared": calls, "skipped_for_budget": sk, "with_abandoned_writes_or_reopen": nontrivial}));
    rep.sample(json!({"space": name, "script": scs[scs.len() / 3]}));
    println!("[C16] {name}: {} scripts, {calls} calls compared, {nontrivial} non-trivial, {sk} skipped ({:.1}s)", scs.len(), rep.elapsed());
}

// ---------------------------------------------------------------- legacy schemas, read-only

fn legacy_sql(version: &str) -> Vec<String> {
    let mut v: Vec<String> = vec![
        "CREATE TABLE operations (id INTEGER PRIMARY KEY AUTOINCREMENT, data STRING);".into(),
        "CREATE TABLE sync_meta (key STRING PRIMARY KEY, value STRING);".into(),
        "CREATE TABLE tasks (uuid STRING PRIMARY KEY, data STRING);".into(),
        "CREATE TABLE working_set (id INTEGER PRIMARY KEY, uuid STRING);".into(),
    ];
    let uuid_col_old = r#"ALTER TABLE operations ADD COLUMN uuid GENERATED ALWAYS AS (coalesce(json_extract(data, "$.Update.uuid"), json_extract(data, "$.Create.uuid"), json_extract(data, "$.Delete.uuid"))) VIRTUAL"#;
    let uuid_col_new = r#"ALTER TABLE operations ADD COLUMN uuid GENERATED ALWAYS AS (coalesce(json_extract(data, '$.Update.uuid'), json_extract(data, '$.Create.uuid'), json_extract(data, '$.Delete.uuid'))) VIRTUAL"#;
    let version_table = "CREATE TABLE version (singleton INTEGER PRIMARY KEY CHECK (singleton = 0), major INTEGER, minor INTEGER)";
    if version != "0.8" {
        v.push(if version == "0.2" { uuid_col_new.into() } else { uuid_col_old.into() });
        v.push("CREATE INDEX operations_by_uuid ON operations (uuid)".into());
        v.push("ALTER TABLE operations ADD COLUMN synced bool DEFAULT false".into());
        v.push("CREATE INDEX operations_by_synced ON operations (synced)".into());
    }
    if version == "0.1" || version == "0.2" {
        v.push(version_table.into());
        v.push(format!("INSERT INTO version (singleton, major, minor) VALUES (0, 0, {})", if version == "0.1" { 1 } else { 2 }));
    }
    v
}

/// Pre-loaded content: two tasks, two synchronized and three unsynchronized operations, working
/// set, base version.
fn preload(con: &rusqlite::Connection, with_synced: bool) -> InMemoryStorage {
    let t1 = map(2);
    let t2 = map(1);
    // where the schema has the column, the first two operations are already synchronized
    let synced_ops: Vec<Operation> = if with_synced { vec![op(0), op(1)] } else { vec![] };
    let ops_ = [op(0), op(1), op(3)];
    for o in &synced_ops {
        con.execute("INSERT INTO operations (data, synced) VALUES (?, true)", rusqlite::params![serde_json::to_string(o).unwrap()]).unwrap();
    }
    con.execute("INSERT INTO tasks (uuid, data) VALUES (?, ?)", rusqlite::params![u(1).to_string(), serde_json::to_string(&t1).unwrap()]).unwrap();
    con.execute("INSERT INTO tasks (uuid, data) VALUES (?, ?)", rusqlite::params![u(2).to_string(), serde_json::to_string(&t2).unwrap()]).unwrap();
    for o in &ops_ {
        if with_synced {
            con.execute("INSERT INTO operations (data, synced) VALUES (?, false)", rusqlite::params![serde_json::to_string(o).unwrap()]).unwrap();
        } else {
            con.execute("INSERT INTO operations (data) VALUES (?)", rusqlite::params![serde_json::to_string(o).unwrap()]).unwrap();
        }
    }
    con.execute("INSERT INTO working_set (id, uuid) VALUES (1, ?)", rusqlite::params![u(1).to_string()]).unwrap();
    con.execute("INSERT INTO working_set (id, uuid) VALUES (3, ?)", rusqlite::params![u(2).to_string()]).unwrap();
    con.execute("INSERT INTO sync_meta (key, value) VALUES ('base_version', ?)", rusqlite::params![u(101).to_string()]).unwrap();
    // the same content in the in-memory store
    let mut mem = InMemoryStorage::new();
    crate::util::block_on(async {
        let mut t = mem.txn().await.unwrap();
        t.set_task(u(1), t1).await.unwrap();
        t.set_task(u(2), t2).await.unwrap();
        if !synced_ops.is_empty() {
            for o in synced_ops {
                t.add_operation(o).await.unwrap();
            }
            t.sync_complete().await.unwrap();
        }
        for o in ops_ {
            t.add_operation(o).await.unwrap();
        }
        t.add_to_working_set(u(1)).await.unwrap();
        t.add_to_working_set(u(1)).await.unwrap();
        t.add_to_working_set(u(2)).await.unwrap();
        t.set_working_set_item(2, None).await.unwrap();
        t.set_base_version(u(101)).await.unwrap();
        t.commit().await.unwrap();
    });
    mem
}

fn legacy(rep: &Report) {
    for version in ["0.8", "0.9", "0.1", "0.2"] {
        let dir = fresh_dir("legacy");
        let con = rusqlite::Connection::open(dir.join("taskchampion.sqlite3")).unwrap();
        con.query_row("PRAGMA journal_mode=WAL", [], |_| Ok(())).unwrap();
        for q in legacy_sql(version) {
            con.execute(&q, []).unwrap_or_else(|e| panic!("legacy schema {version}: {q}: {e}"));
        }
        let mem = preload(&con, version != "0.8");
        drop(con);
        let r: Result<(), String> = crate::util::block_on(async {
            let sql = SqliteStorage::new(&dir, AccessMode::ReadWrite, false).await.map_err(|e| format!("upgrade-failed: opening a {version} database failed: {e:#}"))?;
            let mut p = Pair { dir: dir.clone(), sql: Some(sql), mem };
            let a = observe_all(&mut p.mem).await;
            let b = observe_all(p.sql.as_mut().unwrap()).await;
            if a != b {
                return Err(format!("upgrade-content: a database written under schema {version} reads back as {b:?}, expected {a:?}"));
            }
            // a few scripts on top of the upgraded database
            for s in scripts(&alphabet(false), 1).into_iter().chain([vec![Call::AddOp(1), Call::SyncComplete, Call::Commit], vec![Call::RemoveOp(3), Call::Commit, Call::Reopen, Call::TaskOps(1)]]) {
                run_script(&mut p, &s).await.map_err(|e| format!("{e} [on a database upgraded from schema {version}]"))?;
                rep.add("legacy_scripts", 1);
            }
            Ok(())
        });
        rep.add("states", 1);
        rep.add("transitions", 1);
        if let Err(e) = r {
            rep.violation(Violation::new(format!("{}:legacy-{version}", e.split(':').next().unwrap_or("")), e, json!({"kind": "c16-legacy", "schema": version})));
        }
    }
    println!("[C16] legacy schemas 0.8, 0.9, (0,1), (0,2): upgraded and compared ({:.1}s)", rep.elapsed());
}

fn read_only(rep: &Report) {
    let r: Result<u64, String> = crate::util::block_on(async {
        let mut p = Pair::new().await;
        run_script(&mut p, &[Call::CreateTask(1), Call::SetTask(1, 2), Call::AddOp(0), Call::AddWs(1), Call::SetBase(1), Call::Commit]).await?;
        let before = observe_all(p.sql.as_mut().unwrap()).await;
        p.sql = None;
        let mut ro = SqliteStorage::new(&p.dir, AccessMode::ReadOnly, false).await.map_err(|e| format!("read-only-open: {e:#}"))?;
        let mut n = 0;
        for c in alphabet(true) {
            if matches!(c, Call::Abandon | Call::Reopen) {
                continue;
            }
            let mut t = ro.txn().await.map_err(|e| format!("read-only-txn: {e:#}"))?;
            let res = do_call(t.as_mut(), c).await;
            n += 1;
            let is_read = matches!(c, Call::GetTask(_) | Call::AllTasks | Call::AllUuids | Call::Pending | Call::BaseVersion | Call::TaskOps(_) | Call::Unsynced | Call::NumUnsynced | Call::GetWs | Call::IsEmpty);
            if is_read && res == Res::Err {
                return Err(format!("read-only-read-failed: {c:?} fails on a read-only handle"));
            }
            if !is_read && res != Res::Err {
                return Err(format!("read-only-write-accepted: {c:?} succeeded on a storage opened read-only"));
            }
            // whatever was attempted, a commit must fail too
            let cm = do_call(t.as_mut(), Call::Commit).await;
            if cm != Res::Err {
                return Err(format!("read-only-commit-accepted: commit succeeded on a read-only handle (after {c:?})"));
            }
        }
        drop(ro);
        let mut again = SqliteStorage::new(&p.dir, AccessMode::ReadWrite, false).await.map_err(|e| format!("reopen: {e:#}"))?;
        let after = observe_all(&mut again).await;
        if before != after {
            return Err(format!("read-only-changed: content changed through a read-only handle: {before:?} -> {after:?}"));
        }
        Ok(n)
    });
    match r {
        Ok(n) => {
            rep.add("read_only_calls", n);
            println!("[C16] read-only: {n} calls refused or answered, content unchanged ({:.1}s)", rep.elapsed());
        }
        Err(e) => rep.violation(Violation::new(format!("{}:read-only", e.split(':').next().unwrap_or("")), e, json!({"kind": "c16-read-only"}))),
    }
}

/// Whole transactions as actions: the graph of storage states reachable by sequences of these
/// transactions is explored breadth-first; a state is identified by the full observation of the
/// in-memory storage (which the lock-step comparison ties to SQLite's), every state is expanded
/// by every transaction, and each transition replays its whole path on a wiped pair of stores.
fn txn_alphabet() -> Vec<Vec<Call>> {
    use Call::*;
    vec![
        vec![CreateTask(1), AddOp(0), Commit],
        vec![SetTask(1, 2), AddOp(1), Commit],
        vec![DeleteTask(1), AddOp(4), Commit],
        // what applying a pulled server deletion does: the task goes, no local operation is added
        vec![DeleteTask(1), Commit],
        vec![CreateTask(2), SetTask(2, 1), Commit],
        vec![DeleteTask(2), AddOp(2), Commit],
        vec![SyncComplete, Commit],
        vec![SetBase(1), SyncComplete, Commit],
        vec![AddWs(1), Commit],
        vec![AddWs(2), SetWs(1, 0), Commit],
        vec![ClearWs, Commit],
        vec![AddOp(3), Commit],
        vec![RemoveOp(1), Commit],
        vec![RemoveOp(4), RemoveOp(3), Commit],
        vec![CreateTask(1), AddOp(0), AddWs(1), Abandon],
        vec![Reopen],
    ]
}

fn txn_graph(rep: &Report, max_depth: usize) {
    use rayon::prelude::*;
    thread_local! { static PAIR: std::cell::RefCell<Option<Pair>> = const { std::cell::RefCell::new(None) }; }
    let alpha = txn_alphabet();
    let seen: dashmap::DashSet<u128> = Default::default();
    let mut frontier: Vec<Vec<usize>> = vec![vec![]];
    let (mut transitions, mut calls, mut depth_done) = (0u64, 0u64, 0usize);
    let mut capped = false;
    for depth in 1..=max_depth {
        if rep.over_budget() {
            capped = true;
            break;
        }
        let jobs: Vec<(usize, usize)> = (0..frontier.len()).flat_map(|i| (0..alpha.len()).map(move |m| (i, m))).collect();
        let results: Vec<(usize, usize, Result<(u128, usize), String>)> = jobs
            .par_iter()
            .filter(|_| !rep.over_budget())
            .map(|&(i, m)| {
                let script: Vec<Call> = frontier[i].iter().chain(std::iter::once(&m)).flat_map(|&k| alpha[k].iter().copied()).collect();
                let r = PAIR.with(|cell| {
                    crate::util::block_on(async {
                        let mut slot = cell.borrow_mut();
                        if slot.is_none() {
                            *slot = Some(Pair::new().await);
                        }
                        let p = slot.as_mut().unwrap();
                        p.reset();
                        // the path is replayed without the closing re-open; every NEW state gets it
                        let prefix_len: usize = frontier[i].iter().map(|&k| alpha[k].len()).sum();
                        let r = match run_script_opt(p, &script, false, prefix_len).await {
                            Ok((_, n)) => {
                                let key = crate::util::h128(&canon_obs(&observe_all(&mut p.mem).await));
                                if seen.contains(&key) {
                                    Ok((key, n))
                                } else {
                                    persistence_check(p, &script).await.map(|_| (key, n))
                                }
                            }
                            Err(e) => Err(e),
                        };
                        if r.is_err() {
                            *slot = None;
                        }
                        r
                    })
                });
                (i, m, r)
            })
            .collect();
        let mut next = vec![];
        for (i, m, r) in results {
            transitions += 1;
            match r {
                Ok((key, n)) => {
                    calls += n as u64;
                    if seen.insert(key) {
                        let mut p = frontier[i].clone();
                        p.push(m);
                        next.push(p);
                    }
                }
                Err(e) => {
                    let script: Vec<Call> = frontier[i].iter().chain(std::iter::once(&m)).flat_map(|&k| alpha[k].iter().copied()).collect();
                    let note = crate::util::confirm_or_exit("C16", &e, || crate::util::block_on(async { run_script(&mut Pair::new().await, &script).await.err() }));
                    let class = e.split(' ').next().unwrap_or("").trim_end_matches(':').to_string();
                    rep.violation(Violation::new(format!("{class}:txn-graph"), format!("{e}{note}"), json!({"kind": "c16-script", "script": script, "observed": e})));
                }
            }
        }
        if rep.over_budget() {
            // the level was cut short: it does not count as completed
            capped = true;
            break;
        }
        depth_done = depth;
        if rep.n_violations() > 0 || next.is_empty() {
            break;
        }
        frontier = next;
    }
    if capped {
        rep.set("exhaustive", false);
    }
    rep.add("states", seen.len() as u64);
    rep.add("transitions", calls);
    rep.add("traces_validated_against_impl", transitions);
    rep.set("txn_graph", json!({"transactions_in_alphabet": alpha.len(), "depth_requested": max_depth, "depth_completed": depth_done, "distinct_states": seen.len(), "transitions": transitions, "calls_compared": calls, "capped": capped}));
    println!("[C16] transaction graph: depth {depth_done} of {max_depth}, {} distinct states, {transitions} transitions, {calls} calls compared, capped={capped} ({:.1}s)", seen.len(), rep.elapsed());
}

pub fn run(opts: &Opts) -> i32 {
    let rep = Report::new("C16", "model_checking", opts);
    rep.set("exhaustive", true);
    rep.set("rule", "every script of exactly d StorageTxn calls over an alphabet of 24 (thorough 38) calls (tasks, operations, base version, working set, sync_complete, is_empty, commit, abandon, close+re-open) with 2 uuids and non-ASCII/empty strings, executed in lock step on InMemoryStorage and SqliteStorage; every return value compared (collections as sorted sets, errors as 'is error'), full observation compared after every transaction end and after close + re-open; the graph of storage states reachable by sequences of up to 4 (thorough 6) whole transactions from an alphabet of 16 (create/update/delete with and without the matching operation, sync_complete with and without a new base version, working-set edits, undo-style removals, an abandoned transaction, close+re-open), states identified by their full observation; the same after a prefix of 25 operations and 12 working-set entries; seven working-set entries with every subset of the positions blanked; the same on databases created by raw SQL under schemas 0.8, 0.9, (0,1), (0,2) with pre-loaded content; every mutator and commit on a read-only handle; non-trivial = scripts that abandon a transaction containing writes after an earlier committed write, or re-open after a committed write");
    rep.assume("contract restrictions: set_working_set_item only with 1 <= index < current length; no call after commit and no second commit in one transaction; error messages are not compared");
    let q = opts.tier == Tier::Quick;
    run_scripts(&rep, "reduced-alphabet", scripts(&alphabet(false), if q { 3 } else { 4 }));
    run_scripts(&rep, "full-alphabet", scripts(&alphabet(true), if q { 2 } else { 3 }));
    // longer scripts that start with a populated, committed state
    let prefix = vec![Call::CreateTask(1), Call::AddOp(0), Call::AddWs(1), Call::AddWs(2), Call::Commit];
    let tails = scripts(&alphabet(false), if q { 2 } else { 3 });
    run_scripts(&rep, "populated-prefix", tails.into_iter().map(|t| prefix.iter().cloned().chain(t).collect()).collect());
    // many rows: 25 operations and 12 working-set entries pass every single-digit threshold
    // (row ids / positions with two digits, ordering by text instead of number, page sizes)
    let mut many = vec![Call::CreateTask(1), Call::CreateTask(2)];
    for k in 0..25u8 {
        many.push(Call::AddOp([0, 1, 3, 4, 2][(k % 5) as usize]));
    }
    for k in 0..12u8 {
        many.push(Call::AddWs(1 + k % 2));
    }
    many.push(Call::Commit);
    let tails = scripts(&alphabet(true), if q { 1 } else { 2 });
    run_scripts(&rep, "many-rows-prefix", tails.into_iter().map(|t| many.iter().cloned().chain(t).chain([Call::Commit, Call::Reopen, Call::Unsynced, Call::GetWs, Call::TaskOps(1)]).collect()).collect());
    // working-set shapes: seven entries, then every subset of the positions blanked (runs of blanks of
    // every length at the start, in the middle, at the end), read back inside the transaction, after
    // commit and after re-open, and then appended to
    let mut shapes = vec![];
    for mask in 0u32..128 {
        let mut sc = vec![Call::CreateTask(1), Call::CreateTask(2)];
        for k in 0..7u8 {
            sc.push(Call::AddWs(1 + k % 2));
        }
        sc.push(Call::Commit);
        for i in 0..7u8 {
            if mask & (1 << i) != 0 {
                sc.push(Call::SetWs(i + 1, 0));
            }
        }
        sc.extend([Call::GetWs, Call::Pending, Call::Commit, Call::GetWs, Call::Reopen, Call::GetWs, Call::Pending, Call::AddWs(2), Call::GetWs, Call::Commit]);
        shapes.push(sc);
    }
    run_scripts(&rep, "working-set-shapes", shapes);
    txn_graph(&rep, if q { 4 } else { 6 });
    legacy(&rep);
    read_only(&rep);
    rep.finish()
}

pub fn replay(case: &serde_json::Value) -> Result<(), String> {
    let script: Vec<Call> = serde_json::from_value(case["script"].clone()).map_err(|e| e.to_string())?;
    println!("script: {script:?}");
    crate::util::block_on(async {
        let mut p = Pair::new().await;
        run_script(&mut p, &script).await.map(|_| ())
    })
}
