//! C14 – what is sent is the documented operation format only; documented-format versions
//! written by another implementation are applied correctly.

use super::c01::{run_spaces, Space};
use super::syncsys::*;
use super::syncworld::*;
use crate::model::ops::{self, MOp, Tasks};
use crate::util::{Opts, Report, Tier, Violation};
use crate::world::mserver::{vid, Ver};
use crate::world::replicas::tid;
use serde_json::json;
use std::sync::Arc;

fn odd_updates() -> Vec<(String, Option<String>, i64)> {
    vec![
        ("p".into(), Some("a".into()), 1),
        ("p".into(), None, 2),
        ("q\"\\\n".into(), Some("\"q\" \\ \u{1F600} \u{0} é".into()), 1),
        ("old_value".into(), Some("old_task".into()), 2),
    ]
}

fn spaces(tier: Tier) -> Vec<Space> {
    let q = tier == Tier::Quick;
    let mut v = vec![];
    let mut s = SyncSys::new(2);
    s.c14 = true;
    s.c01 = false;
    s.undo_points = true;
    s.updates = odd_updates();
    s.batches = true;
    v.push(Space { name: "R2-undo-odd", sys: s, depth: if q { 6 } else { 8 } });
    let mut s = SyncSys::new(2);
    s.c14 = true;
    s.c01 = false;
    s.undo_points = true;
    s.updates = vec![("p".into(), Some("a".into()), 1), ("p".into(), Some("b".into()), 2)];
    s.big_budget = 1;
    v.push(Space { name: "R2-undo-big", sys: s, depth: if q { 6 } else { 8 } });
    if !q {
        let mut s = SyncSys::new(3);
        s.c14 = true;
        s.c01 = false;
    s.c01 = false;
        s.undo_points = true;
        s.tasks = vec![1, 2];
        s.updates = vec![("p".into(), Some("a".into()), 1), ("p".into(), None, 2)];
        v.push(Space { name: "R3-two-tasks", sys: s, depth: 6 });
    }
    v
}

/// Sub-second timestamps and real TaskData-made operations: what is sent equals the documented
/// conversion.
fn subsecond(rep: &Report) {
    use crate::world::proxy::Ctl;
    use crate::world::replicas::with_replica;
    use chrono::TimeZone;
    let stamps = [
        chrono::Utc.timestamp_opt(1_700_000_000, 0).unwrap(),
        chrono::Utc.timestamp_opt(1_700_000_000, 1).unwrap(),
        chrono::Utc.timestamp_opt(1_700_000_000, 123_000_000).unwrap(),
        chrono::Utc.timestamp_opt(1_700_000_000, 123_456_000).unwrap(),
        chrono::Utc.timestamp_opt(1_700_000_000, 999_999_999).unwrap(),
        chrono::Utc.timestamp_opt(0, 0).unwrap(),
        chrono::Utc.timestamp_opt(-1, 500_000_000).unwrap(),
        chrono::Utc.timestamp_opt(253_402_300_799, 0).unwrap(),
    ];
    let sys = {
        let mut s = SyncSys::new(1);
        s.c14 = true;
        s.c01 = false;
    s.c01 = false;
        s
    };
    for (i, st) in stamps.iter().enumerate() {
        let mut w = World::new(1);
        let u = tid(1);
        let opsv = vec![
            taskchampion::Operation::UndoPoint,
            taskchampion::Operation::Create { uuid: u },
            taskchampion::Operation::Update { uuid: u, property: "p".into(), old_value: None, value: Some("v".into()), timestamp: *st },
            taskchampion::Operation::UndoPoint,
            taskchampion::Operation::Update { uuid: u, property: "p".into(), old_value: Some("v".into()), value: None, timestamp: *st },
            taskchampion::Operation::Delete { uuid: u, old_task: [("z".to_string(), "secret-old".to_string())].into_iter().collect() },
        ];
        crate::util::block_on(with_replica(&mut w.reps[0], Ctl::new(), async |r| {
            r.commit_operations(opsv).await.unwrap();
        }));
        w.obs[0] = Arc::new(obs_of(&mut w.reps[0]));
        let before = w.obs[0].clone();
        let out = do_sync(&mut w, 0, Urg::None, false, None, None);
        rep.add("subsecond_cases", 1);
        let r = out
            .result
            .clone()
            .map_err(|e| format!("sync-failed: {e}"))
            .and_then(|_| check_sync_step(&sys, None, &before, &w, &out, Urg::None, false))
            .and_then(|_| {
                // the timestamp must round-trip exactly
                for v in &w.chain.versions {
                    for op in ops::parse_version_strict(&v.seg)? {
                        if let MOp::Update { ts, .. } = op {
                            let got = chrono::DateTime::parse_from_rfc3339(&ts).map_err(|e| e.to_string())?;
                            if got != *st {
                                return Err(format!("timestamp-roundtrip: sent {ts} for {st:?}"));
                            }
                        }
                    }
                    let txt = String::from_utf8_lossy(&v.seg);
                    if txt.contains("secret-old") || txt.contains("old_value") || txt.contains("old_task") || txt.contains("UndoPoint") {
                        return Err(format!("wire-leak: version contains local-only data: {txt}"));
                    }
                }
                Ok(())
            });
        if let Err(e) = r {
            rep.violation(Violation::new(format!("{}:subsecond", e.split(':').next().unwrap_or("")), e, json!({"kind": "c14-subsecond", "case": i})));
        }
    }
}

/// Every document of a small grammar of other implementations' output is applied as the model
/// says.
fn foreign_documents(rep: &Report, tier: Tier) {
    let u1 = tid(1).to_string();
    let u1_upper = tid(1).to_string().to_uppercase();
    let precisions = ["2023-11-14T22:13:21Z", "2023-11-14T22:13:21.123Z", "2023-11-14T22:13:21.123456Z", "2023-11-14T22:13:21.123456789Z"];
    let values: Vec<(&str, Option<&str>)> = vec![("null", None), ("\"v\"", Some("v")), ("\"\\u00e9\\ud83d\\ude00\"", Some("é\u{1F600}")), ("\"é\u{1F600}\"", Some("é\u{1F600}"))];
    let fields = ["uuid", "property", "value", "timestamp"];
    let mut perms: Vec<Vec<usize>> = vec![];
    permute(&mut vec![0, 1, 2, 3], 0, &mut perms);
    let seps: Vec<(&str, &str)> = if tier == Tier::Quick { vec![(",", ":"), (" , ", " : ")] } else { vec![(",", ":"), (" , ", " : "), (",\n\t", ":\n")] };
    let uuids = if tier == Tier::Quick { vec![u1.clone()] } else { vec![u1.clone(), u1_upper] };
    let mut n = 0u64;
    let mut distinct = std::collections::BTreeSet::new();
    for uu in &uuids {
        for prec in precisions {
            for (vtxt, vval) in &values {
                for perm in &perms {
                    for (comma, colon) in &seps {
                        let fv = |f: &str| -> String {
                            match f {
                                "uuid" => format!("\"{uu}\""),
                                "property" => "\"p\"".to_string(),
                                "value" => vtxt.to_string(),
                                _ => format!("\"{prec}\""),
                            }
                        };
                        let body: Vec<String> = perm.iter().map(|&i| format!("\"{}\"{colon}{}", fields[i], fv(fields[i]))).collect();
                        let doc = format!(
                            "{{\"operations\"{colon}[{{\"Create\"{colon}{{\"uuid\"{colon}\"{uu}\"}}}}{comma}{{\"Update\"{colon}{{{}}}}}{comma}{{\"Create\"{colon}{{\"uuid\"{colon}\"{}\"}}}}{comma}{{\"Delete\"{colon}{{\"uuid\"{colon}\"{}\"}}}}{comma}{{\"Update\"{colon}{{\"uuid\"{colon}\"{}\"{comma}\"property\"{colon}\"p\"{comma}\"value\"{colon}\"late\"{comma}\"timestamp\"{colon}\"{prec}\"}}}}{comma}{{\"Delete\"{colon}{{\"uuid\"{colon}\"{}\"}}}}{comma}{{\"Create\"{colon}{{\"uuid\"{colon}\"{uu}\"}}}}]}}",
                            body.join(comma),
                            tid(2),
                            tid(2),
                            // operations another writer may well send and that the documented rules ignore: an update
                            // of the task just deleted, a delete of a task that never existed, a create of one that does
                            tid(2),
                            tid(3)
                        );
                        n += 1;
                        distinct.insert(crate::util::h64(&doc));
                        // expected by the model
                        let mut want = Tasks::new();
                        let mut props = std::collections::BTreeMap::new();
                        if let Some(v) = vval {
                            props.insert("p".to_string(), v.to_string());
                        }
                        want.insert(tid(1), props);
                        if let Err(e) = feed_fresh(&doc, &want) {
                            rep.violation(Violation::new(
                                format!("{}:foreign", e.split(':').next().unwrap_or("")),
                                e,
                                json!({"kind": "c14-foreign", "document": doc}),
                            ));
                        }
                        if n == 1 || n == 77 {
                            rep.sample(json!({"foreign_document": doc}));
                        }
                    }
                }
            }
        }
    }
    rep.add("foreign_documents", n);
    rep.add("distinct_foreign_documents", distinct.len() as u64);
}

fn permute(v: &mut Vec<usize>, k: usize, out: &mut Vec<Vec<usize>>) {
    if k == v.len() {
        out.push(v.clone());
        return;
    }
    for i in k..v.len() {
        v.swap(k, i);
        permute(v, k + 1, out);
        v.swap(k, i);
    }
}

/// A fresh replica synced against a server pre-loaded with one hand-written version.
fn feed_fresh(doc: &str, want: &Tasks) -> Result<(), String> {
    // the document must itself be valid under the strict documented format
    let model = ops::replay_chain([doc.as_bytes()]).map_err(|e| format!("harness-grammar: generated document rejected by the strict model: {e}"))?;
    if &model != want {
        return Err("harness-grammar: model disagrees with the expected state".into());
    }
    let mut w = World::new(1);
    w.chain.next_id = 1;
    w.chain.versions.push(Ver {
        id: vid(1),
        parent: uuid::Uuid::nil(),
        seg: Arc::new(doc.as_bytes().to_vec()),
        h: crate::util::h64(&doc.as_bytes()),
    });
    let out = std::panic::catch_unwind(std::panic::AssertUnwindSafe(|| {
        let mut w2 = w.clone();
        let o = do_sync(&mut w2, 0, Urg::None, false, None, None);
        (o.result, w2)
    }));
    let (res, mut w2) = match out {
        Ok(x) => x,
        Err(_) => return Err(format!("foreign-panic: replica panicked applying a documented-format version: {doc}")),
    };
    res.map_err(|e| format!("foreign-rejected: replica failed on a documented-format version ({e}): {doc}"))?;
    let o = obs_of(&mut w2.reps[0]);
    if &o.tasks != want {
        return Err(format!(
            "foreign-misapplied: version {doc} gives {} but the documented semantics give {}",
            crate::world::replicas::tasks_str(&o.tasks),
            crate::world::replicas::tasks_str(want)
        ));
    }
    Ok(())
}

pub fn run(opts: &Opts) -> i32 {
    let rep = Report::new("C14", "model_checking", opts);
    rep.set("exhaustive", true);
    rep.set("rule", "outbound: every version sent in every history (undo points, property removal, deletes of populated tasks, odd strings, 1MB values) is validated against a strict parser of the documented format (only Create/Delete/Update with exactly the documented fields, order = commit order) and, when nothing was pulled, compared with the documented conversion of the pending list; inbound: every document of a grammar of other writers (24 field orders x 4 timestamp precisions x null/string/escaped/raw values x separators x uuid case, each also containing operations the documented rules ignore: update of a deleted task, delete of a missing one, create of an existing one) is fed to a fresh replica and compared with the model; non-trivial states as in C01");
    rep.assume("the version wrapper {\"operations\":[...]} is the format (docs/src/sync-protocol.md shows a bare array; the property's anchors name the wrapper)");
    run_spaces("C14", spaces(opts.tier), opts, &rep);
    subsecond(&rep);
    foreign_documents(&rep, opts.tier);
    rep.finish()
}
