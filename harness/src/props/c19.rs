//! C19 – task mutators, their recorded operations and the task model agree (E-STATE + E-DIFF
//! against a task model written from docs/src/tasks.md and the property statement).

use crate::explore::state::{explore, StateCfg, Sys};
use crate::util::{Opts, Report, Tier, Violation};
use crate::world::proxy::Ctl;
use crate::world::replicas::{observe, with_replica, Mem};
use chrono::{TimeZone, Utc};
use serde_json::json;
use std::collections::BTreeMap;
use std::sync::atomic::{AtomicU64, Ordering};
use taskchampion::{Annotation, Operation, Status, Tag, Task};
use uuid::Uuid;

type Props = BTreeMap<String, String>;

fn a_id() -> Uuid {
    Uuid::from_u128(0xA1)
}
fn b_id() -> Uuid {
    Uuid::from_u128(0xB2)
}
fn t1() -> chrono::DateTime<Utc> {
    Utc.timestamp_opt(1_600_000_000, 0).unwrap()
}
fn past() -> chrono::DateTime<Utc> {
    Utc.timestamp_opt(1_000_000_000, 0).unwrap()
}
fn future() -> chrono::DateTime<Utc> {
    Utc.timestamp_opt(4_000_000_000, 0).unwrap()
}

#[derive(Clone, Debug, PartialEq, Eq, Hash, serde::Serialize, serde::Deserialize)]
pub enum Mutator {
    Status(String),
    Done,
    Start,
    Stop,
    Description,
    Priority,
    Entry,
    WaitFuture,
    WaitPast,
    WaitNone,
    Due,
    DueNone,
    Modified,
    AddTag,
    RemoveTag,
    /// a user tag with characters other than ASCII letters
    AddOddTag,
    AddSyntheticTag,
    AddAnnotation,
    RemoveAnnotation,
    SetUda,
    SetUdaReserved(String),
    RemoveUda,
    RemoveUdaReserved,
    AddDep,
    RemoveDep,
    /// a dependency on a task that does not exist
    AddDepMissing,
    /// a second annotation at another time
    AddAnnotation2,
    /// generic set_value on an arbitrary property
    SetValue(String, Option<String>),
}

#[derive(Clone, Debug, PartialEq, Eq, Hash, serde::Serialize, serde::Deserialize)]
pub enum Act {
    /// open an editing session on task A (get_task, or create_task when it does not exist)
    Open,
    Call(Mutator),
    /// commit the session's operations and reload
    Commit,
    /// drop the session without committing
    Abandon,
    /// a low-level TaskData edit of A or B, committed at once
    Raw { on_b: bool, prop: String, value: Option<String> },
    Rebuild,
    /// purge A or B (TaskData::delete), committed at once
    Purge { on_b: bool },
}

#[derive(Clone)]
pub struct Session {
    task: Task,
    ops: Vec<Operation>,
    /// model: expected properties of the held task, with "NOW" for clock values
    held: Props,
    refreshed: bool,
    /// window in which the session's clock values must lie
    t0: i64,
}

#[derive(Clone)]
pub struct State {
    mem: Mem,
    session: Option<Session>,
    /// model of what is stored for A and B ("NOW"-abstracted)
    stored_a: Option<Props>,
    stored_b: Option<Props>,
}

pub struct TaskSys {
    pub prior: u8,
    pub calls: AtomicU64,
    pub commits: AtomicU64,
    pub usage_errors: AtomicU64,
    pub depmap_checks: AtomicU64,
}

const NOW: &str = "NOW";
const CLOCK_PROPS: [&str; 3] = ["modified", "end", "start"];

/// Model of one mutator call: returns the expected recorded updates (property, new value) or
/// Err for a documented usage error.
fn model_call(held: &mut Props, refreshed: &mut bool, m: &Mutator) -> Result<Vec<(String, Option<String>)>, ()> {
    let mut out: Vec<(String, Option<String>)> = vec![];
    let set = |held: &mut Props, refreshed: &mut bool, out: &mut Vec<(String, Option<String>)>, p: &str, v: Option<String>| {
        if p != "modified" && !*refreshed {
            held.insert("modified".into(), NOW.into());
            out.push(("modified".into(), Some(NOW.into())));
        }
        *refreshed = true;
        match &v {
            Some(x) => {
                held.insert(p.to_string(), x.clone());
            }
            None => {
                held.remove(p);
            }
        }
        out.push((p.to_string(), v));
    };
    let ts = |d: chrono::DateTime<Utc>| Some(d.timestamp().to_string());
    match m {
        Mutator::Status(s) => {
            match s.as_str() {
                "pending" | "recurring" => {
                    if held.contains_key("end") {
                        set(held, refreshed, &mut out, "end", None);
                    }
                }
                "completed" | "deleted" => {
                    if !held.contains_key("end") {
                        set(held, refreshed, &mut out, "end", Some(NOW.into()));
                    }
                }
                _ => {}
            }
            set(held, refreshed, &mut out, "status", Some(s.clone()));
        }
        Mutator::Done => {
            if !held.contains_key("end") {
                set(held, refreshed, &mut out, "end", Some(NOW.into()));
            }
            set(held, refreshed, &mut out, "status", Some("completed".into()));
        }
        Mutator::Start => {
            if !held.contains_key("start") {
                set(held, refreshed, &mut out, "start", Some(NOW.into()));
            }
        }
        Mutator::Stop => set(held, refreshed, &mut out, "start", None),
        Mutator::Description => set(held, refreshed, &mut out, "description", Some("d2".into())),
        Mutator::Priority => set(held, refreshed, &mut out, "priority", Some("H".into())),
        Mutator::Entry => set(held, refreshed, &mut out, "entry", ts(t1())),
        Mutator::WaitFuture => set(held, refreshed, &mut out, "wait", ts(future())),
        Mutator::WaitPast => set(held, refreshed, &mut out, "wait", ts(past())),
        Mutator::WaitNone => set(held, refreshed, &mut out, "wait", None),
        Mutator::Due => set(held, refreshed, &mut out, "due", ts(t1())),
        Mutator::DueNone => set(held, refreshed, &mut out, "due", None),
        Mutator::Modified => set(held, refreshed, &mut out, "modified", ts(t1())),
        Mutator::AddTag => set(held, refreshed, &mut out, "tag_work", Some("".into())),
        Mutator::AddOddTag => set(held, refreshed, &mut out, "tag_\u{e9}t\u{e9}_2", Some("".into())),
        Mutator::AddDepMissing => set(held, refreshed, &mut out, &format!("dep_{}", Uuid::from_u128(0xC3)), Some("".into())),
        Mutator::AddAnnotation2 => set(held, refreshed, &mut out, &format!("annotation_{}", past().timestamp()), Some("older note".into())),
        Mutator::RemoveTag => set(held, refreshed, &mut out, "tag_work", None),
        Mutator::AddSyntheticTag => return Err(()),
        Mutator::AddAnnotation => set(held, refreshed, &mut out, &format!("annotation_{}", t1().timestamp()), Some("note".into())),
        Mutator::RemoveAnnotation => set(held, refreshed, &mut out, &format!("annotation_{}", t1().timestamp()), None),
        Mutator::SetUda => set(held, refreshed, &mut out, "github.id", Some("42".into())),
        Mutator::SetUdaReserved(_) => return Err(()),
        Mutator::RemoveUda => set(held, refreshed, &mut out, "github.id", None),
        Mutator::RemoveUdaReserved => return Err(()),
        Mutator::AddDep => set(held, refreshed, &mut out, &format!("dep_{}", b_id()), Some("".into())),
        Mutator::RemoveDep => set(held, refreshed, &mut out, &format!("dep_{}", b_id()), None),
        Mutator::SetValue(p, v) => set(held, refreshed, &mut out, p, v.clone()),
    }
    Ok(out)
}

fn real_call(task: &mut Task, ops: &mut Vec<Operation>, m: &Mutator) -> Result<(), taskchampion::Error> {
    let work = Tag::try_from("work").unwrap();
    match m {
        Mutator::Status(s) => task.set_status(status_of(s), ops),
        Mutator::Done => task.done(ops),
        Mutator::Start => task.start(ops),
        Mutator::Stop => task.stop(ops),
        Mutator::Description => task.set_description("d2".into(), ops),
        Mutator::Priority => task.set_priority("H".into(), ops),
        Mutator::Entry => task.set_entry(Some(t1()), ops),
        Mutator::WaitFuture => task.set_wait(Some(future()), ops),
        Mutator::WaitPast => task.set_wait(Some(past()), ops),
        Mutator::WaitNone => task.set_wait(None, ops),
        Mutator::Due => task.set_due(Some(t1()), ops),
        Mutator::DueNone => task.set_due(None, ops),
        Mutator::Modified => task.set_modified(t1(), ops),
        Mutator::AddTag => task.add_tag(&work, ops),
        Mutator::AddOddTag => match Tag::try_from("\u{e9}t\u{e9}_2") {
            Ok(t) => task.add_tag(&t, ops),
            Err(e) => Err(taskchampion::Error::Other(e)),
        },
        Mutator::AddDepMissing => task.add_dependency(Uuid::from_u128(0xC3), ops),
        Mutator::AddAnnotation2 => task.add_annotation(Annotation { entry: past(), description: "older note".into() }, ops),
        Mutator::RemoveTag => task.remove_tag(&work, ops),
        Mutator::AddSyntheticTag => task.add_tag(&Tag::try_from("PENDING").unwrap(), ops),
        Mutator::AddAnnotation => task.add_annotation(Annotation { entry: t1(), description: "note".into() }, ops),
        Mutator::RemoveAnnotation => task.remove_annotation(t1(), ops),
        Mutator::SetUda => task.set_user_defined_attribute("github.id", "42", ops),
        Mutator::SetUdaReserved(k) => task.set_user_defined_attribute(k.clone(), "v", ops),
        Mutator::RemoveUda => task.remove_user_defined_attribute("github.id", ops),
        Mutator::RemoveUdaReserved => task.remove_user_defined_attribute("tag_work", ops),
        Mutator::AddDep => task.add_dependency(b_id(), ops),
        Mutator::RemoveDep => task.remove_dependency(b_id(), ops),
        Mutator::SetValue(p, v) => task.set_value(p.clone(), v.clone(), ops),
    }
}

fn status_of(s: &str) -> Status {
    match s {
        "pending" => Status::Pending,
        "completed" => Status::Completed,
        "deleted" => Status::Deleted,
        "recurring" => Status::Recurring,
        v => Status::Unknown(v.to_string()),
    }
}

fn mutators(full: bool) -> Vec<Mutator> {
    let mut v = vec![
        Mutator::Status("pending".into()),
        Mutator::Status("completed".into()),
        Mutator::Status("deleted".into()),
        Mutator::Status("bogus".into()),
        Mutator::Done,
        Mutator::Start,
        Mutator::Stop,
        Mutator::Modified,
        Mutator::Description,
        Mutator::AddDep,
        Mutator::WaitFuture,
        Mutator::AddTag,
        Mutator::AddSyntheticTag,
        Mutator::SetUdaReserved("status".into()),
        Mutator::SetValue("end".into(), None),
    ];
    if full {
        v.extend([
            Mutator::Status("recurring".into()),
            Mutator::Priority,
            Mutator::Entry,
            Mutator::WaitPast,
            Mutator::WaitNone,
            Mutator::Due,
            Mutator::DueNone,
            Mutator::RemoveTag,
            Mutator::AddAnnotation,
            Mutator::RemoveAnnotation,
            Mutator::SetUda,
            Mutator::SetUdaReserved("dep_x".into()),
            Mutator::SetUdaReserved("annotation_1".into()),
            Mutator::RemoveUda,
            Mutator::RemoveUdaReserved,
            Mutator::RemoveDep,
            Mutator::AddOddTag,
            Mutator::AddDepMissing,
            Mutator::AddAnnotation2,
            Mutator::SetValue("status".into(), Some("completed".into())),
        ]);
    }
    v
}

/// Compare real properties with the model's, abstracting clock values.
fn props_match(real: &Props, model: &Props, t0: i64, t1: i64) -> Result<(), String> {
    let keys: std::collections::BTreeSet<&String> = real.keys().chain(model.keys()).collect();
    for k in keys {
        match (real.get(k), model.get(k)) {
            (Some(r), Some(m)) if m == NOW => {
                let ok = r.parse::<i64>().is_ok_and(|x| x >= t0 - 1 && x <= t1 + 1);
                if !ok {
                    return Err(format!("clock-value: property {k} should hold the current time but holds {r:?}"));
                }
            }
            (Some(r), Some(m)) if r == m => {}
            (r, m) => return Err(format!("model-mismatch: property {k} is {r:?} but the task model says {m:?}")),
        }
    }
    Ok(())
}

fn abstract_props(real: &Props, model: &Props) -> Props {
    real.iter().map(|(k, v)| (k.clone(), if model.get(k).is_some_and(|m| m == NOW) { NOW.to_string() } else { v.clone() })).collect()
}

fn task_props(t: &Task) -> Props {
    t.clone().into_task_data().iter().map(|(k, v)| (k.clone(), v.clone())).collect()
}

impl TaskSys {
    pub fn new(prior: u8) -> Self {
        TaskSys {
            prior,
            calls: AtomicU64::new(0),
            commits: AtomicU64::new(0),
            usage_errors: AtomicU64::new(0),
            depmap_checks: AtomicU64::new(0),
        }
    }

    /// After anything was stored: stored tasks, synthetic tags and the dependency map reflect
    /// exactly the stored statuses, start/wait times, dep_ keys and the working set -- read
    /// through a fresh Replica with a freshly built dependency map.
    fn check_derived(&self, s: &mut State) -> Result<(), String> {
        self.depmap_checks.fetch_add(1, Ordering::Relaxed);
        let obs = crate::util::block_on(observe(&mut s.mem));
        let got = crate::util::block_on(with_replica(&mut s.mem, Ctl::new(), async |r| read_derived(r, true).await))?;
        compare_derived(&obs, &got, "a fresh Replica")
    }

    /// Commit `ops_` through a Replica that has already served reads (so its dependency map is
    /// cached), then read tasks and the dependency map again through the SAME Replica without
    /// forcing a rebuild: they must reflect what is stored now.
    fn commit_through_warm_replica(&self, s: &mut State, ops_: Vec<Operation>) -> Result<(), String> {
        let got = crate::util::block_on(with_replica(&mut s.mem, Ctl::new(), async |r| {
            let _ = read_derived(r, false).await?;
            r.commit_operations(ops_).await.map_err(|e| format!("commit-failed: {e:#}"))?;
            read_derived(r, false).await
        }))?;
        let obs = crate::util::block_on(observe(&mut s.mem));
        compare_derived(&obs, &got, "the Replica that made the commit (after earlier reads)")
    }
}

type Derived = (std::sync::Arc<taskchampion::DependencyMap>, Vec<(Uuid, Option<Task>)>);

async fn read_derived<S: taskchampion::storage::Storage>(r: &mut taskchampion::Replica<S>, force: bool) -> Result<Derived, String> {
    let dm = r.dependency_map(force).await.map_err(|e| format!("read-error: {e:#}"))?;
    let mut tasks = vec![];
    for u in [a_id(), b_id()] {
        tasks.push((u, r.get_task(u).await.map_err(|e| format!("read-error: {e:#}"))?));
    }
    Ok((dm, tasks))
}

fn compare_derived(obs: &crate::world::replicas::Obs, got: &Derived, how: &str) -> Result<(), String> {
    let (dm, tasks) = got;
    let now = Utc::now().timestamp();
    // model of the dependency map
    let mut edges = std::collections::BTreeSet::new();
    for u in obs.ws.iter().flatten() {
        if let Some(t) = obs.tasks.get(u) {
            for k in t.keys() {
                if let Some(d) = k.strip_prefix("dep_").and_then(|d| Uuid::parse_str(d).ok()) {
                    if obs.tasks.get(&d).and_then(|x| x.get("status")).map(|s| s.as_str()) == Some("pending") {
                        edges.insert((*u, d));
                    }
                }
            }
        }
    }
    for (u, task) in tasks {
        let u = *u;
        let deps: std::collections::BTreeSet<Uuid> = dm.dependencies(u).collect();
        let want: std::collections::BTreeSet<Uuid> = edges.iter().filter(|e| e.0 == u).map(|e| e.1).collect();
        if deps != want {
            return Err(format!("depmap: read through {how}, dependencies of {u} are {deps:?} but stored dep_ keys / statuses / working set give {want:?}"));
        }
        let dts: std::collections::BTreeSet<Uuid> = dm.dependents(u).collect();
        let wantd: std::collections::BTreeSet<Uuid> = edges.iter().filter(|e| e.1 == u).map(|e| e.0).collect();
        if dts != wantd {
            return Err(format!("depmap: read through {how}, dependents of {u} are {dts:?} but should be {wantd:?}"));
        }
        if task.is_some() != obs.tasks.contains_key(&u) {
            return Err(format!("read-back: read through {how}, get_task({u}) is {} but the task is {}stored", if task.is_some() { "Some" } else { "None" }, if obs.tasks.contains_key(&u) { "" } else { "not " }));
        }
        if let Some(t) = task {
            let p = obs.tasks.get(&u).cloned().unwrap_or_default();
            if task_props(t) != p {
                return Err(format!("read-back: read through {how}, get_task({u}) holds {:?} but {p:?} is stored", task_props(t)));
            }
            let st = p.get("status").map(|s| s.as_str());
            let expect: Vec<(&str, bool)> = vec![
                ("PENDING", st == Some("pending") || st.is_none()),
                ("COMPLETED", st == Some("completed")),
                ("DELETED", st == Some("deleted")),
                ("ACTIVE", p.contains_key("start")),
                ("WAITING", p.get("wait").and_then(|w| w.parse::<i64>().ok()).is_some_and(|w| w > now)),
                ("BLOCKED", !want.is_empty()),
                ("UNBLOCKED", want.is_empty()),
                ("BLOCKING", !wantd.is_empty()),
            ];
            for (name, exp) in expect {
                let tag = Tag::try_from(name).unwrap();
                if t.has_tag(&tag) != exp {
                    return Err(format!("synthetic-tag: read through {how}, {name} is {} on a task stored as {p:?} (dependencies {want:?}, dependents {wantd:?})", t.has_tag(&tag)));
                }
                if t.get_tags().any(|x| x == tag) != exp {
                    return Err(format!("synthetic-tag: get_tags disagrees with has_tag for {name}"));
                }
            }
            // read-back of what was written
            if p.contains_key("tag_work") != t.get_tags().any(|x| x == Tag::try_from("work").unwrap()) {
                return Err("read-back: user tag 'work' does not read back as stored".into());
            }
            let ann_key = format!("annotation_{}", t1().timestamp());
            if p.contains_key(&ann_key) != t.get_annotations().any(|a| a.entry == t1() && Some(&a.description) == p.get(&ann_key)) {
                return Err("read-back: annotation does not read back as stored".into());
            }
            // every stored tag_/annotation_ key that is well-formed reads back, and nothing else does
            let stored_tags: std::collections::BTreeSet<String> = p.keys().filter_map(|k| k.strip_prefix("tag_")).filter(|n| Tag::try_from(*n).is_ok_and(|t| t.is_user())).map(|s| s.to_string()).collect();
            let read_tags: std::collections::BTreeSet<String> = t.get_tags().filter(|x| x.is_user()).map(|x| x.to_string()).collect();
            if stored_tags != read_tags {
                return Err(format!("read-back: user tags read back as {read_tags:?} but {stored_tags:?} are stored"));
            }
            let stored_ann: std::collections::BTreeSet<(i64, String)> = p.iter().filter_map(|(k, v)| k.strip_prefix("annotation_").and_then(|n| n.parse::<i64>().ok()).map(|n| (n, v.clone()))).collect();
            let read_ann: std::collections::BTreeSet<(i64, String)> = t.get_annotations().map(|a| (a.entry.timestamp(), a.description)).collect();
            if stored_ann != read_ann {
                return Err(format!("read-back: annotations read back as {read_ann:?} but {stored_ann:?} are stored"));
            }
            let stored_deps: std::collections::BTreeSet<Uuid> = p.keys().filter_map(|k| k.strip_prefix("dep_")).filter_map(|d| Uuid::parse_str(d).ok()).collect();
            let read_deps: std::collections::BTreeSet<Uuid> = t.get_dependencies().collect();
            if stored_deps != read_deps {
                return Err(format!("read-back: dependencies read back as {read_deps:?} but {stored_deps:?} are stored"));
            }
            if p.get("github.id").map(|s| s.as_str()) != t.get_user_defined_attribute("github.id") {
                return Err("read-back: user-defined attribute does not read back as stored".into());
            }
            if p.contains_key(&format!("dep_{}", b_id())) != t.get_dependencies().any(|d| d == b_id()) {
                return Err("read-back: dependency does not read back as stored".into());
            }
            if p.get("due").and_then(|d| d.parse::<i64>().ok()) != t.get_due().map(|d| d.timestamp()) {
                return Err("read-back: due does not read back as stored".into());
            }
        }
    }
    Ok(())
}

impl Sys for TaskSys {
    type State = State;
    type Action = Act;

    fn init(&self) -> State {
        let mut mem = Mem::default();
        let ts = super::syncworld::ts(0);
        let upd = |u: Uuid, p: &str, v: &str| Operation::Update { uuid: u, property: p.into(), old_value: None, value: Some(v.into()), timestamp: ts };
        let mut ops_ = vec![Operation::Create { uuid: b_id() }, upd(b_id(), "status", "pending"), upd(b_id(), "description", "target")];
        let mut a: Option<Props> = None;
        match self.prior {
            0 => {}
            1 => {
                ops_.extend([Operation::Create { uuid: a_id() }, upd(a_id(), "status", "pending"), upd(a_id(), "description", "d1")]);
                a = Some([("status", "pending"), ("description", "d1")].iter().map(|(k, v)| (k.to_string(), v.to_string())).collect());
            }
            2 => {
                ops_.extend([Operation::Create { uuid: a_id() }, upd(a_id(), "status", "completed"), upd(a_id(), "end", "1500000000"), upd(a_id(), &format!("dep_{}", b_id()), "")]);
                a = Some([("status", "completed".to_string()), ("end", "1500000000".to_string()), (&format!("dep_{}", b_id()), "".to_string())].iter().map(|(k, v)| (k.to_string(), v.clone())).collect());
            }
            _ => {
                // status and end disagree (written by another application / low-level edits)
                ops_.extend([Operation::Create { uuid: a_id() }, upd(a_id(), "status", "completed"), upd(a_id(), "start", "5")]);
                a = Some([("status", "completed"), ("start", "5")].iter().map(|(k, v)| (k.to_string(), v.to_string())).collect());
            }
        }
        crate::util::block_on(with_replica(&mut mem, Ctl::new(), async |r| r.commit_operations(ops_).await)).unwrap();
        let b: Props = [("status", "pending"), ("description", "target")].iter().map(|(k, v)| (k.to_string(), v.to_string())).collect();
        State {
            mem,
            session: None,
            stored_a: a,
            stored_b: Some(b),
        }
    }

    fn actions(&self, s: &State, left: usize) -> Vec<Act> {
        let mut v = vec![];
        match &s.session {
            None => {
                v.push(Act::Open);
                if left >= 2 {
                    let dep_on_a = format!("dep_{}", a_id());
                    for (on_b, prop, value) in [
                        (false, "status", Some("completed")),
                        (false, "end", None),
                        (false, "status", Some("pending")),
                        (true, "status", Some("completed")),
                        (true, "status", Some("pending")),
                        (true, dep_on_a.as_str(), Some("")),
                    ] {
                        let exists = if on_b { s.stored_b.is_some() } else { s.stored_a.is_some() };
                        if exists {
                            v.push(Act::Raw { on_b, prop: prop.into(), value: value.map(|x: &str| x.to_string()) });
                        }
                    }
                    v.push(Act::Rebuild);
                    for on_b in [false, true] {
                        if if on_b { s.stored_b.is_some() } else { s.stored_a.is_some() } {
                            v.push(Act::Purge { on_b });
                        }
                    }
                }
            }
            Some(sess) => {
                for m in mutators(self.prior <= 1) {
                    v.push(Act::Call(m));
                }
                if !sess.ops.is_empty() {
                    v.push(Act::Commit);
                }
            }
        }
        v
    }

    fn step(&self, s: &State, a: &Act) -> Result<State, String> {
        let mut n = s.clone();
        match a {
            Act::Open => {
                let t0 = Utc::now().timestamp();
                let (task, ops_) = crate::util::block_on(with_replica(&mut n.mem, Ctl::new(), async |r| {
                    let mut ops_ = vec![];
                    let t = r.create_task(a_id(), &mut ops_).await.map_err(|e| format!("read-error: {e:#}"))?;
                    Ok::<_, String>((t, ops_))
                }))?;
                let held = n.stored_a.clone().unwrap_or_default();
                if n.stored_a.is_none() && ops_ != vec![Operation::Create { uuid: a_id() }] {
                    return Err(format!("create-ops: creating a new task recorded {ops_:?}"));
                }
                if n.stored_a.is_some() && !ops_.is_empty() {
                    return Err("create-ops: opening an existing task recorded operations".into());
                }
                let real = task_props(&task);
                if abstract_props(&real, &held) != held {
                    return Err(format!("load-mismatch: loaded task has {real:?} but {held:?} was stored"));
                }
                n.session = Some(Session { task, ops: ops_, held: real, refreshed: false, t0 });
            }
            Act::Call(m) => {
                self.calls.fetch_add(1, Ordering::Relaxed);
                let sess = n.session.as_mut().unwrap();
                let before_real = task_props(&sess.task);
                let n_ops = sess.ops.len();
                let mut model = abstract_model(&before_real, &sess.held);
                let mut refreshed = sess.refreshed;
                let expect = model_call(&mut model, &mut refreshed, m);
                let r = real_call(&mut sess.task, &mut sess.ops, m);
                let now = Utc::now().timestamp();
                match (expect, r) {
                    (Err(()), Err(taskchampion::Error::Usage(_))) => {
                        self.usage_errors.fetch_add(1, Ordering::Relaxed);
                        if sess.ops.len() != n_ops || task_props(&sess.task) != before_real {
                            return Err(format!("rejected-but-changed: {m:?} was rejected but changed the task or recorded operations"));
                        }
                    }
                    (Err(()), Ok(())) => return Err(format!("reserved-accepted: {m:?} must be rejected (reserved name / synthetic tag) but was accepted")),
                    (Err(()), Err(e)) => return Err(format!("wrong-error: {m:?} failed with {e:#} instead of a usage error")),
                    (Ok(_), Err(e)) => return Err(format!("mutator-failed: {m:?} failed: {e:#}")),
                    (Ok(exp_ops), Ok(())) => {
                        let after_real = task_props(&sess.task);
                        props_match(&after_real, &model, now - 3600, now).map_err(|e| format!("{e} (after {m:?} on {before_real:?})"))?;
                        // recorded operations: every one an update of this task whose old value is what
                        // the property really held at that moment; the modification time is refreshed at
                        // most once per session and only when the model says so
                        let new_ops = &sess.ops[n_ops..];
                        let mut cur = before_real.clone();
                        let exp_modified = exp_ops.iter().filter(|(p, _)| p == "modified").count();
                        let mut got_modified = 0;
                        for op in new_ops {
                            let Operation::Update { uuid, property, old_value, value, .. } = op else {
                                return Err(format!("recorded-ops: {m:?} recorded a non-update {op:?}"));
                            };
                            if *uuid != a_id() {
                                return Err(format!("recorded-ops: {m:?} recorded an update of another task"));
                            }
                            if *old_value != cur.get(property).cloned() {
                                return Err(format!("old-value: {m:?} recorded old value {old_value:?} for {property} but the property held {:?}", cur.get(property)));
                            }
                            if property == "modified" {
                                got_modified += 1;
                            }
                            match value {
                                Some(v) => cur.insert(property.clone(), v.clone()),
                                None => cur.remove(property),
                            };
                        }
                        if got_modified != exp_modified {
                            return Err(format!(
                                "modified-refresh: {m:?} recorded {got_modified} updates of the modification time, the task model expects {exp_modified} (once per editing session, never when set explicitly) [session so far refreshed={}]",
                                sess.refreshed
                            ));
                        }
                        if cur != after_real {
                            return Err(format!("ops-vs-object: replaying the recorded operations gives {cur:?} but the task object holds {after_real:?}"));
                        }
                        sess.held = after_real;
                        sess.refreshed = refreshed;
                    }
                }
            }
            Act::Commit => {
                self.commits.fetch_add(1, Ordering::Relaxed);
                let sess = n.session.take().unwrap();
                let ops_ = sess.ops.clone();
                self.commit_through_warm_replica(&mut n, ops_)?;
                let obs = crate::util::block_on(observe(&mut n.mem));
                let stored: Props = obs.tasks.get(&a_id()).cloned().unwrap_or_default();
                let held = task_props(&sess.task);
                if stored != held {
                    return Err(format!("stored-vs-held: after commit the stored task is {stored:?} but the caller's task object holds {held:?}"));
                }
                let model = abstract_model(&held, &sess.held);
                n.stored_a = Some(model);
                self.check_derived(&mut n)?;
            }
            Act::Abandon => {
                n.session = None;
            }
            Act::Raw { on_b, prop, value } => {
                let u = if *on_b { b_id() } else { a_id() };
                let (p, v) = (prop.clone(), value.clone());
                let ops_ = crate::util::block_on(with_replica(&mut n.mem, Ctl::new(), async |r| {
                    let mut td = r.get_task_data(u).await.map_err(|e| e.to_string())?.ok_or("missing")?;
                    let mut ops_ = vec![];
                    td.update(p, v, &mut ops_);
                    Ok::<_, String>(ops_)
                }))?;
                self.commit_through_warm_replica(&mut n, ops_)?;
                let m = if *on_b { n.stored_b.as_mut() } else { n.stored_a.as_mut() }.unwrap();
                match value {
                    Some(v) => m.insert(prop.clone(), v.clone()),
                    None => m.remove(prop),
                };
                self.check_derived(&mut n)?;
            }
            Act::Purge { on_b } => {
                let u = if *on_b { b_id() } else { a_id() };
                let ops_ = crate::util::block_on(with_replica(&mut n.mem, Ctl::new(), async |r| {
                    let mut td = r.get_task_data(u).await.map_err(|e| e.to_string())?.ok_or("missing")?;
                    let mut ops_ = vec![];
                    td.delete(&mut ops_);
                    Ok::<_, String>(ops_)
                }))?;
                self.commit_through_warm_replica(&mut n, ops_)?;
                if *on_b {
                    n.stored_b = None;
                } else {
                    n.stored_a = None;
                }
                self.check_derived(&mut n)?;
            }
            Act::Rebuild => {
                crate::util::block_on(with_replica(&mut n.mem, Ctl::new(), async |r| r.rebuild_working_set(false).await.map_err(|e| format!("rebuild-failed: {e:#}"))))?;
                self.check_derived(&mut n)?;
            }
        }
        Ok(n)
    }

    fn canon(&self, s: &State) -> u128 {
        let sess = s.session.as_ref().map(|x| {
            let ops_: Vec<String> = x
                .ops
                .iter()
                .map(|o| match o {
                    Operation::Update { property, value, old_value, .. } => {
                        let abs = |v: &Option<String>, p: &str| if CLOCK_PROPS.contains(&p) && v.as_ref().is_some_and(|v| v.parse::<i64>().is_ok_and(|t| t > 1_700_000_000 && t < 3_000_000_000)) { Some(NOW.to_string()) } else { v.clone() };
                        format!("{property}:{:?}->{:?}", abs(old_value, property), abs(value, property))
                    }
                    o => format!("{o:?}"),
                })
                .collect();
            (abstract_model(&task_props(&x.task), &x.held_model()), x.refreshed, ops_)
        });
        let mut m = s.mem.clone();
        let ws = crate::util::block_on(observe(&mut m)).ws;
        crate::util::h128(&(format!("{:?}", s.stored_a), format!("{:?}", s.stored_b), sess, ws))
    }

    fn check(&self, s: &State, _trace: &[Act]) -> Result<bool, String> {
        // non-trivial: a stored state in which status and end disagree, or a session with >=2 calls
        let inconsistent = s.stored_a.as_ref().is_some_and(|p| {
            let closed = matches!(p.get("status").map(|s| s.as_str()), Some("completed") | Some("deleted"));
            closed != p.contains_key("end")
        });
        Ok(inconsistent || s.session.as_ref().is_some_and(|x| x.ops.len() >= 3))
    }
}

impl Session {
    fn held_model(&self) -> Props {
        // held with clock values abstracted: a value is a clock value if it lies in the session window
        let now = Utc::now().timestamp();
        self.held
            .iter()
            .map(|(k, v)| {
                let is_clock = CLOCK_PROPS.contains(&k.as_str()) && v.parse::<i64>().is_ok_and(|x| x > now - 3600 && x <= now + 1);
                (k.clone(), if is_clock { NOW.to_string() } else { v.clone() })
            })
            .collect()
    }
}

/// The model view of real properties: clock-valued properties (as judged by `hint`) become NOW.
fn abstract_model(real: &Props, hint: &Props) -> Props {
    let now = Utc::now().timestamp();
    real.iter()
        .map(|(k, v)| {
            let hinted = hint.get(k).is_some_and(|h| h == NOW);
            let recent = CLOCK_PROPS.contains(&k.as_str()) && v.parse::<i64>().is_ok_and(|x| x > now - 3600 && x <= now + 1);
            (k.clone(), if hinted || recent { NOW.to_string() } else { v.clone() })
        })
        .collect()
}

pub fn replay_trace(sys: &TaskSys, tr: &[Act], verbose: bool) -> Result<(), String> {
    let mut s = sys.init();
    for a in tr {
        if verbose {
            println!("{a:?}");
        }
        s = sys.step(&s, a)?;
        if verbose {
            if let Some(x) = &s.session {
                println!("    held: {:?}", task_props(&x.task));
            } else {
                println!("    stored A: {:?}", s.stored_a);
            }
        }
    }
    Ok(())
}

pub fn run(opts: &Opts) -> i32 {
    let rep = Report::new("C19", "model_checking", opts);
    rep.set("exhaustive", true);
    rep.set("rule", "histories over {open an editing session on task A (get/create), call one of 15-32 Task mutators (statuses incl. unknown, done, start/stop, timestamps, explicit modified, user/synthetic tags, annotations, UDAs incl. reserved names, dependencies, generic set_value), commit + reload, low-level TaskData edits of A and of its dependency target B (statuses, a dependency of B on A), purging A or B, rebuild} from four stored prior states (absent; pending; completed with end and a dependency; status/end disagreeing); every call is compared with a task model (recorded operations incl. old values, held object, usage errors), every commit with storage, and after every store the synthetic tags and the dependency map (both freshly built through a new Replica, and the cached one of the Replica that served reads before making the commit) are recomputed from stored statuses/start/wait/dep_ keys and the working set; non-trivial = stored status/end disagree or a session recorded >= 3 operations");
    rep.assume("clock values are abstracted to NOW and checked to lie in the call's time window");
    let q = opts.tier == Tier::Quick;
    let n = 4;
    for prior in 0..4u8 {
        let sys = TaskSys::new(prior);
        let depth = match (q, prior) {
            (true, 0 | 1) => 5,
            (true, _) => 6,
            (false, 0 | 1) => 6,
            (false, _) => 8,
        };
        let remaining = (opts.budget_s - rep.elapsed()).max(3.0);
        let deadline = std::time::Instant::now() + std::time::Duration::from_secs_f64(remaining / (n - prior as usize) as f64);
        let cfg = StateCfg { max_depth: depth, deadline: Some(deadline), max_found: 8, first_depth: 1, tolerate: vec![] };
        let (st, found, samples) = explore(&sys, &cfg);
        rep.add("states", st.states);
        rep.add("transitions", st.transitions);
        rep.add("traces_validated_against_impl", st.transitions);
        rep.add("distinct_nontrivial", st.nontrivial);
        rep.add("mutator_calls_checked", sys.calls.load(Ordering::Relaxed));
        rep.add("commits_checked", sys.commits.load(Ordering::Relaxed));
        rep.add("usage_errors_checked", sys.usage_errors.load(Ordering::Relaxed));
        rep.add("derived_state_checks", sys.depmap_checks.load(Ordering::Relaxed));
        rep.set(&format!("prior_{prior}"), json!({"depth_requested": depth, "depth_completed": st.depth_completed, "states": st.states, "transitions": st.transitions, "capped": st.capped}));
        if st.capped {
            rep.set("exhaustive", false);
        }
        println!("[C19] prior {prior}: depth {} of {depth}, {} states, {} transitions, capped={} ({:.1}s)", st.depth_completed, st.states, st.transitions, st.capped, rep.elapsed());
        if let Some(t) = samples.first() {
            rep.sample(json!({"prior": prior, "history": t}));
        }
        for f in found {
            let note = crate::util::confirm_or_exit("C19", &f.what, || replay_trace(&sys, &f.trace, false).err());
            rep.violation(Violation::new(
                format!("{}:prior{prior}", f.what.split(':').next().unwrap_or("")),
                format!("{}{note}", f.what),
                json!({"kind": "c19-trace", "prior": prior, "trace": f.trace, "observed": f.what}),
            ));
        }
    }
    rep.finish()
}

pub fn replay(case: &serde_json::Value) -> Result<(), String> {
    let sys = TaskSys::new(case["prior"].as_u64().unwrap_or(0) as u8);
    let tr: Vec<Act> = serde_json::from_value(case["trace"].clone()).map_err(|e| e.to_string())?;
    replay_trace(&sys, &tr, true)
}
