//! E-KILL over a whole synchronisation: a child process runs the real `Replica::sync` of a SQLite
//! replica against the on-disk local server (`ServerConfig::Local`) and is SIGKILLed at the entry
//! of every write-class syscall it makes - those of the replica database and those of the
//! server database alike (strace fault injection, as in C06). The parent then re-opens both
//! stores and continues as the properties demand:
//!
//! * C11: the interrupted version is on the chain served to everybody or invisible to everybody,
//!   the chain still parses, and everybody - the interrupted replica included - goes on syncing
//!   and converges;
//! * C04: the re-opened replica satisfies the replica invariant and a repeated sync reaches the
//!   result of an uninterrupted one (nothing lost, nothing twice);
//! * C06: what the re-opened replica holds is a state between two of the sync's transactions.
//!
//! Three start situations: push only (the server's latest is the replica's base), pull then push
//! (another replica's version is waiting), and the very first version of an empty server.

use crate::model::ops::{self, Tasks};
use crate::util::{Report, Violation};
use crate::world::proxy::Ctl;
use crate::world::replicas::{observe, tasks_str, tid, with_replica, Mem};
use crate::world::store::{copy_dir, fresh_dir};
use serde_json::json;
use std::path::{Path, PathBuf};
use taskchampion::server::{GetVersionResult, Server};
use taskchampion::storage::AccessMode;
use taskchampion::{Operation, Replica, ServerConfig, SqliteStorage};
use uuid::Uuid;

#[derive(Clone, Copy, Debug, PartialEq, Eq, serde::Serialize, serde::Deserialize)]
pub enum Situation {
    /// the server's latest version is the replica's base: the sync only pushes
    PushOnly,
    /// another replica's version is waiting: the sync pulls, rebases, pushes
    PullThenPush,
    /// the server holds nothing yet: the sync adds the very first version
    FirstVersion,
}

const WRITE_CLASS: [&str; 8] = ["pwrite64", "write", "fsync", "fdatasync", "ftruncate", "unlink", "rename", "unlinkat"];

async fn open_replica(dir: &Path) -> SqliteStorage {
    SqliteStorage::new(dir, AccessMode::ReadWrite, true).await.expect("open sqlite storage")
}

async fn open_server(dir: &Path) -> Box<dyn Server> {
    ServerConfig::Local { server_dir: dir.to_path_buf() }.into_server().await.expect("local server")
}

fn upd(t: u8, p: &str, v: &str, old: Option<&str>, ts: i64) -> Operation {
    Operation::Update {
        uuid: tid(t),
        property: p.into(),
        old_value: old.map(|s| s.to_string()),
        value: Some(v.into()),
        timestamp: super::syncworld::ts(ts),
    }
}

/// Child side: `worker-synckill <replica dir> <server dir>`; prints ACK when sync returned Ok.
pub fn worker(args: &[String]) -> i32 {
    let rdir = PathBuf::from(&args[0]);
    let sdir = PathBuf::from(&args[1]);
    let ok = crate::util::block_on(async {
        let mut r = Replica::new(open_replica(&rdir).await);
        let mut s = open_server(&sdir).await;
        let res = r.sync(&mut s, true).await;
        if res.is_ok() {
            use std::io::Write;
            let mut o = std::io::stdout();
            let _ = o.write_all(b"ACK\n");
            let _ = o.flush();
        }
        drop(s);
        drop(r);
        res.is_ok()
    });
    if ok {
        0
    } else {
        1
    }
}

fn run_child(root: &Path, inject: Option<(&str, usize)>) -> (String, Vec<String>) {
    let exe = std::env::current_exe().expect("current exe");
    let trace_file = root.join("trace");
    let mut cmd = std::process::Command::new("strace");
    cmd.arg("-f").arg("-qq").arg("-o").arg(&trace_file);
    cmd.arg("-e").arg(format!("trace={}", WRITE_CLASS.join(",")));
    if let Some((name, n)) = inject {
        cmd.arg("-e").arg(format!("inject={name}:signal=KILL:when={n}"));
    }
    cmd.arg(exe).arg("worker-synckill").arg(root.join("replica")).arg(root.join("server"));
    let out = cmd.output().expect("strace");
    let trace = std::fs::read_to_string(&trace_file).unwrap_or_default();
    let _ = std::fs::remove_file(&trace_file);
    (String::from_utf8_lossy(&out.stdout).to_string(), trace.lines().map(|s| s.to_string()).collect())
}

/// Ordered distinct (syscall, ordinal, text) injection points of an uninjected trace.
fn kill_points(trace: &[String]) -> Vec<(String, usize, String)> {
    let mut counts: std::collections::BTreeMap<(String, String), usize> = Default::default();
    let mut uniq: Vec<(String, usize, String)> = vec![];
    for l in trace {
        let mut it = l.splitn(2, ' ');
        let pid = it.next().unwrap_or("").to_string();
        let rest = it.next().unwrap_or("").trim_start();
        let name = rest.split('(').next().unwrap_or("").to_string();
        if !WRITE_CLASS.contains(&name.as_str()) {
            continue;
        }
        let n = counts.entry((pid, name.clone())).or_insert(0);
        *n += 1;
        if name == "write" && (rest.starts_with("write(1,") || rest.starts_with("write(2,")) {
            continue;
        }
        if !uniq.iter().any(|u| u.0 == name && u.1 == *n) {
            uniq.push((name, *n, rest.chars().take(70).collect()));
        }
    }
    uniq
}

/// The prepared directories (`root/replica`, `root/server`) and the other replica.
struct Prepared {
    root: PathBuf,
    other: Mem,
    chain_before: usize,
}

fn prepare(sit: Situation) -> Prepared {
    let root = fresh_dir("synckill");
    let (rdir, sdir) = (root.join("replica"), root.join("server"));
    std::fs::create_dir_all(&rdir).unwrap();
    std::fs::create_dir_all(&sdir).unwrap();
    let (other, chain_before) = crate::util::block_on(async {
        let mut a = Replica::new(open_replica(&rdir).await);
        let mut other = Mem::default();
        let mut n = 0;
        if sit != Situation::FirstVersion {
            let mut s = open_server(&sdir).await;
            a.commit_operations(vec![Operation::Create { uuid: tid(1) }, upd(1, "p", "base", None, 1), upd(1, "status", "pending", None, 1)]).await.expect("commit");
            a.sync(&mut s, true).await.expect("setup sync of A");
            n += 1;
            with_replica(&mut other, Ctl::new(), async |r| r.sync(&mut s, true).await).await.expect("setup sync of B");
            if sit == Situation::PullThenPush {
                // B's version is waiting for A: it touches the property A is about to change (and loses: earlier
                // timestamp), another property, and another task
                with_replica(&mut other, Ctl::new(), async |r| {
                    r.commit_operations(vec![upd(1, "p", "fromB", Some("base"), 2), upd(1, "q", "fromB", None, 2), Operation::Create { uuid: tid(3) }, upd(3, "status", "pending", None, 2)])
                        .await?;
                    r.sync(&mut s, true).await
                })
                .await
                .expect("setup: B's waiting version");
                n += 1;
            }
        }
        // A's pending changes: an update of the shared task, a new pending task (working set), an undo point
        let old = if sit == Situation::FirstVersion { None } else { Some("base") };
        let mut ops_ = vec![Operation::UndoPoint];
        if sit == Situation::FirstVersion {
            ops_.push(Operation::Create { uuid: tid(1) });
        }
        ops_.extend([upd(1, "p", "fromA", old, 3), Operation::Create { uuid: tid(2) }, upd(2, "status", "pending", None, 3), upd(2, "description", "new on A", None, 3)]);
        a.commit_operations(ops_).await.expect("commit of A's pending changes");
        drop(a);
        // B's own later change, made before it knows of A's (valid where it is made: on an empty server B
        // does not hold T1)
        let later = if sit == Situation::FirstVersion {
            vec![Operation::Create { uuid: tid(4) }, upd(4, "r", "fromB-later", None, 4)]
        } else {
            vec![upd(1, "r", "fromB-later", None, 4)]
        };
        with_replica(&mut other, Ctl::new(), async |r| r.commit_operations(later).await).await.expect("B's own change");
        (other, n)
    });
    Prepared { root, other, chain_before }
}

/// Walk the chain with a fresh handle; every served version must parse.
async fn walk(sdir: &Path) -> Result<Vec<(Uuid, Vec<ops::MOp>)>, String> {
    let mut h = open_server(sdir).await;
    let mut cur = Uuid::nil();
    let mut out = vec![];
    for _ in 0..64 {
        match h.get_child_version(cur).await.map_err(|e| format!("chain-unreadable: get_child_version failed after the kill: {e:#}"))? {
            GetVersionResult::NoSuchVersion => break,
            GetVersionResult::Version { version_id, parent_version_id, history_segment } => {
                if parent_version_id != cur {
                    return Err("chain-broken: a served version names another parent".into());
                }
                let o = ops::parse_version_strict(&history_segment).map_err(|e| format!("chain-garbled: a served version does not parse: {e}"))?;
                out.push((version_id, o));
                cur = version_id;
            }
        }
    }
    Ok(out)
}

fn replay_to(chain: &[(Uuid, Vec<ops::MOp>)], upto: Option<Uuid>) -> Option<Tasks> {
    let mut t = Tasks::new();
    if upto == Some(Uuid::nil()) {
        return Some(t);
    }
    for (id, o) in chain {
        ops::apply_all(&mut t, o);
        if Some(*id) == upto {
            return Some(t);
        }
    }
    if upto.is_none() {
        Some(t)
    } else {
        None
    }
}

/// Everything that must hold after the child (killed or not) is gone. Returns the converged tasks.
fn continue_and_check(p: &Prepared, root: &Path, acked: bool, reference: Option<&Tasks>) -> Result<Tasks, String> {
    let (rdir, sdir) = (root.join("replica"), root.join("server"));
    let mut other = p.other.clone();
    crate::util::block_on(async {
        // the chain: the old one, or the old one plus exactly A's version
        let chain = walk(&sdir).await?;
        if chain.len() != p.chain_before && chain.len() != p.chain_before + 1 {
            return Err(format!("chain-length: {} versions before the interrupted sync, {} after", p.chain_before, chain.len()));
        }
        if acked && chain.len() != p.chain_before + 1 {
            return Err("acknowledged-lost: the sync returned success but its version is not on the chain".into());
        }
        // the replica: invariant tasks = replay(chain up to base) + pending operations
        let mut st = open_replica(&rdir).await;
        let o = observe(&mut st).await;
        let base = replay_to(&chain, Some(o.base)).ok_or_else(|| format!("base-unknown: the replica's base version {} is not on the chain", o.base))?;
        let mut want = base.clone();
        for op in &o.unsynced {
            if let Some(m) = ops::to_sync(op) {
                ops::apply(&mut want, &m);
            }
        }
        if want != o.tasks {
            return Err(format!(
                "replica-invariant: after the kill the replica holds {} but its base state plus its {} pending operations give {}",
                tasks_str(&o.tasks),
                o.unsynced.len(),
                tasks_str(&want)
            ));
        }
        if acked && o.unsynced.iter().any(|x| !matches!(x, Operation::UndoPoint)) {
            return Err("acknowledged-pending: the sync returned success but the replica still lists operations as unsynchronized".into());
        }
        // everybody goes on: A, B (with its own change), A, B
        let mut a = Replica::new(st);
        let mut sa = open_server(&sdir).await;
        let mut sb = open_server(&sdir).await;
        a.sync(&mut sa, true).await.map_err(|e| format!("resync-failed: the interrupted replica cannot sync again: {e:#}"))?;
        with_replica(&mut other, Ctl::new(), async |r| r.sync(&mut sb, true).await).await.map_err(|e| format!("other-sync-failed: another replica cannot sync after the interruption: {e:#}"))?;
        a.sync(&mut sa, true).await.map_err(|e| format!("resync-failed: second sync of the interrupted replica: {e:#}"))?;
        with_replica(&mut other, Ctl::new(), async |r| r.sync(&mut sb, true).await).await.map_err(|e| format!("other-sync-failed: second sync of the other replica: {e:#}"))?;
        drop(a);
        drop(sa);
        let mut st = open_replica(&rdir).await;
        let oa = observe(&mut st).await;
        drop(st);
        let (ta, ws) = (oa.tasks, oa.ws);
        let tb = observe(&mut other).await.tasks;
        let chain = walk(&sdir).await?;
        let tc = replay_to(&chain, None).unwrap();
        if ta != tb {
            return Err(format!("divergence: interrupted replica {} vs other replica {}", tasks_str(&ta), tasks_str(&tb)));
        }
        if ta != tc {
            return Err(format!("divergence: replicas {} vs chain replay {}", tasks_str(&ta), tasks_str(&tc)));
        }
        if let Some(r) = reference {
            if &ta != r {
                return Err(format!("differs-from-uninterrupted: converged to {} but the uninterrupted run converges to {}", tasks_str(&ta), tasks_str(r)));
            }
        }
        // the working set of the interrupted replica lists every pending task once
        let mut pend: Vec<Uuid> = ta.iter().filter(|(_, m)| m.get("status").map(|s| s == "pending").unwrap_or(false)).map(|(u, _)| *u).collect();
        if ws.first().map(|x| x.is_some()).unwrap_or(false) {
            return Err("working-set: position 0 is occupied".into());
        }
        let mut in_ws: Vec<Uuid> = ws.iter().flatten().copied().collect();
        pend.sort();
        in_ws.sort();
        if pend != in_ws {
            return Err(format!("working-set: pending tasks {pend:?} but the working set lists {in_ws:?}"));
        }
        Ok(ta)
    })
}

pub fn kill_sweep(rep: &Report, prop: &str, sit: Situation, max_points: usize) {
    let p = prepare(sit);
    // uninterrupted reference
    let work = fresh_dir("synckill-run");
    copy_dir(&p.root, &work);
    let (out, trace) = run_child(&work, None);
    if !out.contains("ACK") {
        rep.violation(Violation::new("harness:synckill-baseline", format!("harness: the uninjected child did not complete its sync ({sit:?})"), json!({})));
        return;
    }
    let reference = match continue_and_check(&p, &work, true, None) {
        Ok(t) => t,
        Err(e) => {
            let class = e.split(':').next().unwrap_or("").to_string();
            rep.violation(Violation::new(format!("{class}:{sit:?}:uninterrupted"), format!("{e} [{sit:?}, no interruption]"), json!({"kind": "synckill", "situation": sit, "syscall": null})));
            return;
        }
    };
    let _ = std::fs::remove_dir_all(&work);
    let points = kill_points(&trace);
    rep.set(&format!("synckill_points_{sit:?}"), json!(points.iter().map(|p| format!("{}#{} {}", p.0, p.1, p.2)).collect::<Vec<_>>()));
    let step = points.len().div_ceil(max_points.max(1)).max(1);
    if step > 1 {
        rep.set("exhaustive", false);
        rep.set("synckill_subsampled_every", step as u64);
    }
    let chosen: Vec<&(String, usize, String)> = points.iter().enumerate().filter(|(i, _)| i % step == 0 || i + 1 == points.len()).map(|(_, p)| p).collect();
    use rayon::prelude::*;
    // process creation does not scale here: a few at a time
    let pool = rayon::ThreadPoolBuilder::new().num_threads(4).build().unwrap();
    let outcomes = std::sync::Mutex::new(std::collections::BTreeSet::new());
    pool.install(|| {
        chosen.par_iter().for_each(|(name, n, what)| {
            if rep.over_budget() {
                rep.set("exhaustive", false);
                return;
            }
            let work = fresh_dir("synckill-run");
            copy_dir(&p.root, &work);
            let (out, _) = run_child(&work, Some((name, *n)));
            let acked = out.contains("ACK");
            rep.add("evaluations", 1);
            rep.add("synckill_runs", 1);
            rep.add("distinct_nontrivial", 1);
            let r = crate::util::catch_subject_panic(|| continue_and_check(&p, &work, acked, Some(&reference)));
            let _ = std::fs::remove_dir_all(&work);
            let r = match r {
                Ok(r) => r,
                Err(e) => Err(e),
            };
            match r {
                Ok(_) => {
                    outcomes.lock().unwrap().insert(acked);
                }
                Err(e) => {
                    let class = e.split(':').next().unwrap_or("").to_string();
                    rep.violation(Violation::new(
                        format!("{class}:{sit:?}:synckill"),
                        format!("{e} [{sit:?}: whole sync of a SQLite replica against the local server, SIGKILL at {name} #{n}: {what}]"),
                        json!({"kind": "synckill", "property": prop, "situation": sit, "syscall": name, "ordinal": n}),
                    ));
                }
            }
        })
    });
    println!("[{prop}] sync-kill {sit:?}: {} of {} write syscalls killed ({:.1}s)", chosen.len(), points.len(), rep.elapsed());
    let _ = std::fs::remove_dir_all(&p.root);
}

pub fn replay(case: &serde_json::Value) -> Result<(), String> {
    let sit: Situation = serde_json::from_value(case["situation"].clone()).map_err(|e| e.to_string())?;
    let p = prepare(sit);
    let work = fresh_dir("synckill-run");
    copy_dir(&p.root, &work);
    let inj = match (case["syscall"].as_str(), case["ordinal"].as_u64()) {
        (Some(s), Some(n)) => Some((s.to_string(), n as usize)),
        _ => None,
    };
    let (out, _) = run_child(&work, inj.as_ref().map(|(s, n)| (s.as_str(), *n)));
    let acked = out.contains("ACK");
    println!("child {} (killed at {:?})", if acked { "acknowledged" } else { "did not acknowledge" }, inj);
    let r = continue_and_check(&p, &work, acked, None).map(|t| println!("converged to {}", tasks_str(&t)));
    let _ = std::fs::remove_dir_all(&work);
    let _ = std::fs::remove_dir_all(&p.root);
    r
}
