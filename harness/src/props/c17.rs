//! C17 – concurrent handles on one SQLite replica serialise without loss
//! (E-SCHED over real SqliteStorage handles with a lock probe).

use crate::explore::sched::{explore, Choice, ExploreCfg, GateH, Outcome, Scenario, TaskFut};
use crate::model::ops::{self, Tasks};
use crate::util::{Opts, Report, Tier, Violation};
use crate::world::proxy::{Ctl, Proxy};
use crate::world::replicas::{observe, tasks_str};
use crate::world::store::{copy_dir, fresh_dir};
use serde_json::json;
use std::path::PathBuf;
use taskchampion::storage::AccessMode;
use taskchampion::{Operation, Replica, SqliteStorage, TaskData};
use uuid::Uuid;

fn t(n: u8) -> Uuid {
    Uuid::from_u128(0x17_0000 + n as u128)
}

#[derive(Clone, Copy, Debug, PartialEq, Eq, serde::Serialize, serde::Deserialize)]
pub enum Prog {
    /// create task `n` as pending in one commit (goes into the working set)
    CommitNew(u8),
    /// read task 0, then commit "counter := counter + 1" (two transactions)
    ReadModifyWrite,
    /// re-open task 0 (completed -> pending) as the application does: get, set status, commit
    Reopen0,
    /// commit a change with an undo point, then fetch the undo operations and reverse them
    CommitThenUndo(u8),
    Rebuild(bool),
    Read,
    /// two commits in a row
    TwoCommits(u8),
    /// a full Replica::sync against a (private, empty) harness server: pushes everything pending
    Sync,
    /// ONE commit of `n` operations on task 0: x := "A" first, fillers, y := "A" last. Only the
    /// transaction boundaries (begin / commit) of this handle are scheduling points.
    BigCommit(u16),
    /// one small commit x := "B", y := "B" on task 0
    CommitXY,
    /// read task 0, then commit "counter := the value just read" (an update that, as far as this
    /// handle knows, changes nothing) together with a change of another property
    WriteBackRead,
    /// a long-lived handle: read the working set (as a report does), later rebuild it - whatever
    /// the handle remembers from its first read must not survive another handle's commit
    ReadThenRebuild(bool),
}

#[derive(Clone, Debug, PartialEq, serde::Serialize, serde::Deserialize)]
#[allow(clippy::large_enum_variant)]
pub enum Ev {
    Committed(Vec<Operation>),
    Undone(bool, Vec<Operation>),
    Rebuilt,
    Read(usize),
    /// what a reader saw of task 0's x and y (only ever written together, by one commit)
    Saw(Option<String>, Option<String>),
    /// a sync completed: the operations it sent to the server
    Synced(Vec<crate::model::ops::MOp>),
    Failed(String),
}

#[derive(Clone, Debug, serde::Serialize, serde::Deserialize)]
pub struct Sc17 {
    pub progs: Vec<Prog>,
    /// handles that live in a child process of their own (the others are threads of this one)
    #[serde(default)]
    pub procs: Vec<bool>,
    #[serde(skip)]
    pub proto: std::sync::OnceLock<PathBuf>,
}

pub struct Ctx17 {
    dir: PathBuf,
}

impl Drop for Ctx17 {
    fn drop(&mut self) {
        let _ = std::fs::remove_dir_all(&self.dir);
    }
}

impl Sc17 {
    pub fn new(progs: Vec<Prog>) -> Self {
        Sc17 { procs: vec![false; progs.len()], progs, proto: Default::default() }
    }

    pub fn with_procs(progs: Vec<Prog>, procs: Vec<bool>) -> Self {
        Sc17 { progs, procs, proto: Default::default() }
    }

    /// The starting database: task 0 exists, completed, with counter = 0; everything unsynced.
    fn proto(&self) -> &PathBuf {
        self.proto.get_or_init(|| {
            let dir = fresh_dir("c17proto");
            let d2 = dir.clone();
            std::thread::spawn(move || {
                crate::util::block_on(async {
                    let st = SqliteStorage::new(&d2, AccessMode::ReadWrite, true).await.expect("sqlite");
                    let mut r = Replica::new(st);
                    let mut ops_ = vec![];
                    let mut td = TaskData::create(t(0), &mut ops_);
                    td.update("status", Some("completed".into()), &mut ops_);
                    td.update("counter", Some("0".into()), &mut ops_);
                    r.commit_operations(ops_).await.expect("setup commit");
                });
            })
            .join()
            .expect("proto");
            dir
        })
    }
}

async fn run_prog(dir: PathBuf, prog: Prog, gate: GateH) -> Vec<Ev> {
    let mut log = vec![];
    let st = match SqliteStorage::new(&dir, AccessMode::ReadWrite, false).await {
        Ok(s) => s,
        Err(e) => return vec![Ev::Failed(format!("open: {e:#}"))],
    };
    let ctl = Ctl::new();
    *ctl.gate.lock().unwrap() = gate;
    if matches!(prog, Prog::BigCommit(_)) {
        *ctl.gate_filter.lock().unwrap() = vec!["txn", "commit"];
    }
    let (proxy, _back) = Proxy::new(st, ctl);
    let mut r = Replica::new(proxy);
    macro_rules! commit {
        ($ops:expr) => {{
            let o: Vec<Operation> = $ops;
            match r.commit_operations(o.clone()).await {
                Ok(()) => log.push(Ev::Committed(o)),
                Err(e) => log.push(Ev::Failed(format!("commit: {e:#}"))),
            }
        }};
    }
    let new_task = |n: u8| {
        let mut o = vec![];
        let mut td = TaskData::create(t(n), &mut o);
        td.update("status", Some("pending".into()), &mut o);
        td.update("description", Some(format!("task {n}")), &mut o);
        o
    };
    match prog {
        Prog::CommitNew(n) => commit!(new_task(n)),
        Prog::TwoCommits(n) => {
            commit!(new_task(n));
            commit!(new_task(n + 10));
        }
        Prog::ReadModifyWrite => match r.get_task_data(t(0)).await {
            Ok(Some(mut td)) => {
                let cur: i64 = td.get("counter").and_then(|c| c.parse().ok()).unwrap_or(0);
                let mut o = vec![];
                td.update("counter", Some((cur + 1).to_string()), &mut o);
                commit!(o);
            }
            Ok(None) => log.push(Ev::Failed("task 0 missing".into())),
            Err(e) => log.push(Ev::Failed(format!("read: {e:#}"))),
        },
        Prog::Reopen0 => match r.get_task_data(t(0)).await {
            Ok(Some(mut td)) => {
                let mut o = vec![];
                td.update("status", Some("pending".into()), &mut o);
                commit!(o);
            }
            Ok(None) => log.push(Ev::Failed("task 0 missing".into())),
            Err(e) => log.push(Ev::Failed(format!("read: {e:#}"))),
        },
        Prog::CommitThenUndo(n) => {
            let mut o = vec![Operation::UndoPoint];
            o.extend(new_task(n));
            commit!(o);
            match r.get_undo_operations().await {
                Ok(u) => match r.commit_reversed_operations(u.clone()).await {
                    Ok(b) => log.push(Ev::Undone(b, u)),
                    Err(e) => log.push(Ev::Failed(format!("undo: {e:#}"))),
                },
                Err(e) => log.push(Ev::Failed(format!("get_undo: {e:#}"))),
            }
        }
        Prog::ReadThenRebuild(renumber) => {
            match (r.working_set().await, r.pending_task_data().await) {
                (Ok(_), Ok(p)) => log.push(Ev::Read(p.len())),
                (Err(e), _) | (_, Err(e)) => log.push(Ev::Failed(format!("read: {e:#}"))),
            }
            match r.rebuild_working_set(renumber).await {
                Ok(()) => log.push(Ev::Rebuilt),
                Err(e) => log.push(Ev::Failed(format!("rebuild: {e:#}"))),
            }
        }
        Prog::Rebuild(renumber) => match r.rebuild_working_set(renumber).await {
            Ok(()) => log.push(Ev::Rebuilt),
            Err(e) => log.push(Ev::Failed(format!("rebuild: {e:#}"))),
        },
        Prog::Sync => {
            let chain = std::sync::Arc::new(std::sync::Mutex::new(crate::world::mserver::ChainState::default()));
            let mut server = crate::world::mserver::MServer::new(chain.clone(), 0).boxed();
            match r.sync(&mut server, false).await {
                Ok(()) => {
                    let mut sent = vec![];
                    for v in &chain.lock().unwrap().versions {
                        sent.extend(crate::model::ops::parse_version_strict(&v.seg).unwrap_or_default());
                    }
                    log.push(Ev::Synced(sent));
                }
                Err(e) => log.push(Ev::Failed(format!("sync: {e:#}"))),
            }
        }
        Prog::BigCommit(n) => match r.get_task_data(t(0)).await {
            Ok(Some(mut td)) => {
                let mut o = vec![];
                td.update("x", Some("A".into()), &mut o);
                for i in 0..n.saturating_sub(2) {
                    td.update("f", Some(i.to_string()), &mut o);
                }
                td.update("y", Some("A".into()), &mut o);
                commit!(o);
            }
            Ok(None) => log.push(Ev::Failed("task 0 missing".into())),
            Err(e) => log.push(Ev::Failed(format!("read: {e:#}"))),
        },
        Prog::CommitXY => match r.get_task_data(t(0)).await {
            Ok(Some(mut td)) => {
                let mut o = vec![];
                td.update("x", Some("B".into()), &mut o);
                td.update("y", Some("B".into()), &mut o);
                commit!(o);
            }
            Ok(None) => log.push(Ev::Failed("task 0 missing".into())),
            Err(e) => log.push(Ev::Failed(format!("read: {e:#}"))),
        },
        Prog::WriteBackRead => match r.get_task_data(t(0)).await {
            Ok(Some(mut td)) => {
                let cur = td.get("counter").map(|c| c.to_string());
                let mut o = vec![];
                td.update("counter", cur, &mut o);
                td.update("touched", Some("yes".into()), &mut o);
                commit!(o);
            }
            Ok(None) => log.push(Ev::Failed("task 0 missing".into())),
            Err(e) => log.push(Ev::Failed(format!("read: {e:#}"))),
        },
        Prog::Read => match (r.all_task_data().await, r.working_set().await) {
            (Ok(a), Ok(_)) => {
                log.push(Ev::Read(a.len()));
                if let Some(m) = a.get(&t(0)) {
                    log.push(Ev::Saw(m.get("x").map(|s| s.to_string()), m.get("y").map(|s| s.to_string())));
                }
            }
            (Err(e), _) | (_, Err(e)) => log.push(Ev::Failed(format!("read: {e:#}"))),
        },
    }
    log
}

/// Child side of a process-level handle: run the program with a gate that talks to the parent's
/// scheduler over stdin/stdout, then print the events.
pub fn worker(args: &[String]) -> i32 {
    let dir = PathBuf::from(&args[0]);
    let prog: Prog = serde_json::from_str(&args[1]).expect("program");
    let log = crate::util::block_on(run_prog(dir, prog, GateH::pipe()));
    println!("D {}", serde_json::to_string(&log).unwrap());
    0
}

/// Parent side: a task that stands for the child process under the scheduler.
async fn proxy_task(dir: PathBuf, prog: Prog, gate: GateH) -> Vec<Ev> {
    use std::io::{BufRead, BufReader, Write};
    let exe = std::env::current_exe().expect("current exe");
    let mut child = match std::process::Command::new(exe)
        .arg("worker-c17")
        .arg(&dir)
        .arg(serde_json::to_string(&prog).unwrap())
        .stdin(std::process::Stdio::piped())
        .stdout(std::process::Stdio::piped())
        .stderr(std::process::Stdio::null())
        .spawn()
    {
        Ok(c) => c,
        Err(e) => return vec![Ev::Failed(format!("spawn: {e}"))],
    };
    let mut to_child = child.stdin.take().unwrap();
    let mut from_child = BufReader::new(child.stdout.take().unwrap());
    let mut result = vec![Ev::Failed("child ended without a result".into())];
    loop {
        let mut line = String::new();
        // the child runs freely until its next storage call; this task is the running one meanwhile
        if from_child.read_line(&mut line).unwrap_or(0) == 0 {
            break;
        }
        if let Some(label) = line.strip_prefix("P ") {
            let _ = gate.pass(label.trim_end().to_string()).await;
            if to_child.write_all(b"G\n").and_then(|_| to_child.flush()).is_err() {
                break;
            }
        } else if let Some(j) = line.strip_prefix("D ") {
            result = serde_json::from_str(j.trim_end()).unwrap_or_else(|e| vec![Ev::Failed(format!("child result: {e}"))]);
            break;
        }
    }
    drop(to_child);
    let _ = child.wait();
    result
}

/// Is the database's write lock free? (harness probe connection, no waiting)
fn lock_free(dir: &std::path::Path) -> bool {
    thread_local! { static CON: std::cell::RefCell<Option<(PathBuf, rusqlite::Connection)>> = const { std::cell::RefCell::new(None) }; }
    CON.with(|c| {
        let mut c = c.borrow_mut();
        if c.as_ref().map(|x| x.0.as_path()) != Some(dir) {
            let con = rusqlite::Connection::open(dir.join("taskchampion.sqlite3")).expect("probe connection");
            con.busy_timeout(std::time::Duration::from_millis(0)).unwrap();
            *c = Some((dir.to_path_buf(), con));
        }
        let con = &c.as_ref().unwrap().1;
        match con.execute_batch("BEGIN IMMEDIATE; ROLLBACK;") {
            Ok(()) => true,
            Err(_) => {
                let _ = con.execute_batch("ROLLBACK;");
                false
            }
        }
    })
}

impl Scenario for Sc17 {
    type Ctx = Ctx17;
    type Out = Vec<Ev>;

    fn n_tasks(&self) -> usize {
        self.progs.len()
    }

    fn build(&self, gates: Vec<GateH>) -> (Ctx17, Vec<TaskFut<Vec<Ev>>>) {
        let dir = fresh_dir("c17");
        copy_dir(self.proto(), &dir);
        let mut futs: Vec<TaskFut<Vec<Ev>>> = vec![];
        for (i, p) in self.progs.iter().enumerate() {
            if self.procs.get(i).copied().unwrap_or(false) {
                futs.push(Box::pin(proxy_task(dir.clone(), *p, gates[i].clone())));
            } else {
                futs.push(Box::pin(run_prog(dir.clone(), *p, gates[i].clone())));
            }
        }
        (Ctx17 { dir }, futs)
    }

    fn state_hash(&self, _ctx: &Ctx17) -> u64 {
        0
    }

    fn choices(&self, ctx: &Ctx17, parked: &[(usize, String)], last: Option<usize>) -> Vec<Choice> {
        // a handle may begin a transaction only when the write lock is free; when nobody can move,
        // an asynchronous rollback may still be landing: probe again for a while
        for attempt in 0..12_000 {
            let free = lock_free(&ctx.dir);
            let mut v: Vec<Choice> = vec![];
            let ok = |label: &str| free || label != "storage:txn";
            if let Some(l) = last {
                if parked.iter().any(|(i, lab)| *i == l && ok(lab)) {
                    v.push(Choice::run(l));
                }
            }
            for (i, lab) in parked {
                if Some(*i) != last && ok(lab) {
                    v.push(Choice::run(*i));
                }
            }
            if !v.is_empty() || parked.is_empty() {
                return v;
            }
            let _ = attempt;
            std::thread::sleep(std::time::Duration::from_millis(5));
        }
        vec![]
    }

    fn check(&self, ctx: Ctx17, results: Vec<Option<Vec<Ev>>>, _stopped: &[bool], _trace: &[(Choice, String)]) -> Result<Outcome, String> {
        let mut committed: Vec<Vec<Operation>> = vec![];
        let mut undone: Vec<Vec<Operation>> = vec![];
        let mut failed_undos = 0;
        let mut sent: Vec<ops::MOp> = vec![];
        for (i, r) in results.into_iter().enumerate() {
            let log = r.ok_or_else(|| format!("deadlock: handle {i} did not finish"))?;
            for e in log {
                match e {
                    Ev::Committed(o) => committed.push(o),
                    Ev::Undone(true, o) => undone.push(o),
                    Ev::Undone(false, _) => failed_undos += 1,
                    Ev::Synced(o) => sent.extend(o),
                    Ev::Saw(x, y) if x != y => return Err(format!("torn-read: a reader saw x={x:?} and y={y:?} of task 0, which are only ever written together by one commit")),
                    Ev::Failed(m) => return Err(format!("spurious-failure: handle {i} ({:?}): {m}", self.progs[i])),
                    _ => {}
                }
            }
        }
        // audit through a fresh handle
        let obs = crate::util::block_on(async {
            let mut st = SqliteStorage::new(&ctx.dir, AccessMode::ReadWrite, false).await.map_err(|e| format!("audit-open: {e:#}"))?;
            Ok::<_, String>(observe(&mut st).await)
        })?;
        // every successful commit entirely present, contiguous and in order -- in the unsynchronized
        // list, or (whole) among the operations a concurrent sync sent -- unless it was undone
        let stored = &obs.unsynced;
        let sync_form = |c: &[Operation]| -> Vec<ops::MOp> { c.iter().filter_map(ops::to_sync).collect() };
        let contains = |hay: &[ops::MOp], needle: &[ops::MOp]| needle.is_empty() || hay.windows(needle.len()).any(|w| w.iter().zip(needle).all(|(a, b)| ops::mop_eq(a, b)));
        for c in &committed {
            let was_undone = undone.iter().any(|u| u.len() >= c.len() && u.windows(c.len()).any(|w| w == c.as_slice()));
            let in_store = stored.windows(c.len()).any(|w| w == c.as_slice());
            let in_sent = contains(&sent, &sync_form(c));
            if was_undone {
                if in_store {
                    return Err("undone-still-present: operations of an undone commit are still stored".into());
                }
            } else if !in_store && !in_sent {
                return Err(format!(
                    "commit-lost: a commit that reported success is not entirely present, contiguous and in order ({} stored operations, {} sent by a sync, commit of {})",
                    stored.len(),
                    sent.len(),
                    c.len()
                ));
            }
        }
        let all_ops: usize = 3 + committed.iter().map(|c| sync_form(c).len()).sum::<usize>() - undone.iter().map(|u| sync_form(u).len()).sum::<usize>();
        let have = sent.len() + sync_form(stored).len();
        if have != all_ops {
            return Err(format!("op-count: {have} operations are stored or were sent, the successful commits account for {all_ops}"));
        }
        // replaying what was sent and then the stored operations, in order, reproduces the stored tasks
        let mut replay = Tasks::new();
        ops::apply_all(&mut replay, sent.iter());
        for o in stored {
            if let Some(m) = ops::to_sync(o) {
                ops::apply(&mut replay, &m);
            }
        }
        if replay != obs.tasks {
            return Err(format!("not-serialisable: replaying the recorded operations gives {} but the stored tasks are {}", tasks_str(&replay), tasks_str(&obs.tasks)));
        }
        // working set: no duplicates, and every task made pending by a surviving commit is there
        // (unless a rebuild dropped nothing it should not)
        let mut seen = std::collections::BTreeSet::new();
        for u in obs.ws.iter().flatten() {
            if !seen.insert(*u) {
                return Err(format!("ws-duplicate: task {u} is in the working set twice: {:?}", obs.ws));
            }
        }
        for (u, task) in &obs.tasks {
            let pending = task.get("status").map(|s| s.as_str()) == Some("pending");
            if pending && !seen.contains(u) {
                return Err(format!("ws-lost: task {u} is pending but missing from the working set {:?}", obs.ws));
            }
        }
        if obs.ws.first() != Some(&None) {
            return Err("ws-slot0: position 0 of the working set is not empty".into());
        }
        let order: Vec<String> = stored.iter().map(|o| format!("{:?}", o.get_uuid().map(|u| u.as_u128() & 0xff))).collect();
        Ok(Outcome {
            outcome_hash: crate::util::h64(&(order, format!("{:?}", obs.ws), failed_undos, tasks_str(&obs.tasks))),
            nontrivial: committed.len() >= 2,
        })
    }
}

fn scenarios(tier: Tier) -> Vec<Sc17> {
    use Prog::*;
    let mut v = vec![
        Sc17::new(vec![CommitNew(1), CommitNew(2)]),
        Sc17::new(vec![Reopen0, Reopen0]),
        Sc17::new(vec![ReadModifyWrite, ReadModifyWrite]),
        Sc17::new(vec![CommitThenUndo(1), CommitNew(2)]),
        Sc17::new(vec![CommitNew(1), Rebuild(true)]),
        Sc17::new(vec![Reopen0, Rebuild(false), Read]),
        Sc17::new(vec![TwoCommits(1), TwoCommits(2)]),
        Sc17::new(vec![CommitNew(1), CommitNew(2), CommitNew(3)]),
        Sc17::new(vec![Reopen0, Reopen0, CommitNew(1)]),
        Sc17::new(vec![Sync, CommitNew(1)]),
        Sc17::new(vec![Sync, CommitThenUndo(1), Rebuild(false)]),
    ];
    // a handle writes back a value it read before another handle changed it
    // a long-lived handle reads the working set, other handles commit new pending tasks, it rebuilds
    v.push(Sc17::new(vec![ReadThenRebuild(false), CommitNew(1)]));
    v.push(Sc17::new(vec![ReadThenRebuild(true), CommitNew(1), Reopen0]));
    v.push(Sc17::new(vec![WriteBackRead, ReadModifyWrite]));
    v.push(Sc17::new(vec![WriteBackRead, WriteBackRead, ReadModifyWrite]));
    // one very large commit (thousands of operations) racing a small one and a reader: still one
    // transaction, whatever its size
    let big = if tier == Tier::Quick { 1200 } else { 20000 };
    v.push(Sc17::new(vec![BigCommit(big), CommitXY]));
    v.push(Sc17::new(vec![BigCommit(big), Read]));
    // handles in separate processes (SQLite's cross-process file locking instead of its in-process one)
    v.push(Sc17::with_procs(vec![CommitNew(1), CommitNew(2)], vec![true, true]));
    v.push(Sc17::with_procs(vec![Reopen0, Reopen0], vec![true, true]));
    v.push(Sc17::with_procs(vec![CommitThenUndo(1), ReadModifyWrite], vec![true, false]));
    if tier == Tier::Thorough {
        v.push(Sc17::with_procs(vec![TwoCommits(1), TwoCommits(2), Rebuild(false)], vec![true, true, true]));
        v.push(Sc17::with_procs(vec![Reopen0, Reopen0, CommitNew(1)], vec![true, false, true]));
        v.push(Sc17::new(vec![CommitThenUndo(1), CommitThenUndo(2), Rebuild(true)]));
        v.push(Sc17::new(vec![TwoCommits(1), ReadModifyWrite, Reopen0]));
        v.push(Sc17::new(vec![CommitNew(1), CommitNew(2), CommitNew(3), CommitNew(4)]));
        v.push(Sc17::new((1..=6).map(CommitNew).collect()));
        v.push(Sc17::new(vec![Reopen0, Reopen0, Reopen0, Rebuild(false)]));
    }
    v
}

pub fn run(opts: &Opts) -> i32 {
    let rep = Report::new("C17", "model_checking", opts);
    rep.set("exhaustive", true);
    rep.set("rule", "2-6 real SqliteStorage handles (each with its own actor thread; in some scenarios each in a child process of its own, driven over a pipe) on one database directory run programs {commit a new pending task, read-modify-write, re-open a completed task, commit + undo, rebuild the working set, read, read the working set and later rebuild it, two commits, a whole Replica::sync, one commit of 1200 (thorough 20000) operations racing a small commit or a reader, writing back a value read earlier}; every StorageTxn call of every handle is a scheduling point; a handle may start a transaction only when a harness probe connection (busy_timeout 0, BEGIN IMMEDIATE) finds the write lock free, so the code's real locking decides which interleavings exist; all interleavings are executed; afterwards a fresh handle audits: every successful commit present contiguously and in order, operation count, replay of stored operations = stored tasks, working set without duplicates or lost entries; non-trivial = executions with >= 2 successful commits");
    rep.assume("OS-thread preemption inside the actor thread and inside SQLite is not enumerated: only the order in which handles obtain the write lock, and the position of their individual storage calls relative to other handles' transactions");
    let deadline = std::time::Instant::now() + std::time::Duration::from_secs_f64(opts.budget_s);
    let scs = scenarios(opts.tier);
    let (mut schedules, mut steps, mut nontrivial, mut outcomes) = (0u64, 0u64, 0u64, 0u64);
    for sc in &scs {
        let cfg = ExploreCfg { bound: usize::MAX, max_schedules: if opts.tier == Tier::Quick { 3000 } else { 100_000 }, deadline: Some(deadline), seen: None };
        let (st, fails) = explore(sc, &cfg);
        schedules += st.schedules;
        steps += st.steps;
        nontrivial += st.nontrivial_outcomes.len() as u64;
        outcomes += st.outcomes.len() as u64;
        if st.capped {
            rep.set("exhaustive", false);
            rep.add("scenarios_capped", 1);
        }
        println!("[C17] {:?} procs={:?}: {} schedules, {} distinct outcomes, capped={} ({:.1}s)", sc.progs, sc.procs, st.schedules, st.outcomes.len(), st.capped, rep.elapsed());
        if let Some(tr) = st.sample_traces.first() {
            rep.sample(json!({"programs": sc.progs, "schedule": tr.iter().map(|(c, l)| format!("handle{}: {}", c.task, l)).collect::<Vec<_>>()}));
        }
        for f in fails.into_iter().take(1) {
            rep.violation(Violation::new(
                format!("{}:{:?}", f.what.split(':').next().unwrap_or(""), sc.progs),
                f.what.clone(),
                json!({"kind": "c17-schedule", "programs": sc.progs, "procs": sc.procs, "schedule": super::c02::trace_to_json(&f.trace), "observed": f.what}),
            ));
        }
    }
    rep.add("states", scs.len() as u64);
    rep.add("transitions", steps);
    rep.add("schedules", schedules);
    rep.add("traces_validated_against_impl", schedules);
    rep.add("distinct_nontrivial", nontrivial);
    rep.add("distinct_outcomes", outcomes);
    rep.finish()
}

pub fn replay(case: &serde_json::Value) -> Result<(), String> {
    let progs: Vec<Prog> = serde_json::from_value(case["programs"].clone()).map_err(|e| e.to_string())?;
    let procs: Vec<bool> = serde_json::from_value(case["procs"].clone()).unwrap_or_default();
    let sc = if procs.is_empty() { Sc17::new(progs) } else { Sc17::with_procs(progs, procs) };
    let choices: Vec<Choice> = case["schedule"].as_array().unwrap().iter().map(|e| serde_json::from_value(e["choice"].clone()).unwrap()).collect();
    let (trace, r) = crate::explore::sched::replay(&sc, &choices)?;
    for (c, l) in &trace {
        println!("  handle{} {}", c.task, l);
    }
    r.map(|_| ())
}
