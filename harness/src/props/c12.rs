//! C12 – snapshots reproduce exactly the state of their version (E-STATE, urgency is an
//! explorer-chosen environment answer).

use super::c01::{run_spaces, Space};
use super::syncsys::*;
use super::syncworld::*;
use crate::util::{Opts, Report, Tier, Violation};
use serde_json::json;

fn odd_updates() -> Vec<(String, Option<String>, i64)> {
    vec![
        ("p".into(), Some("".into()), 1),
        ("q\"\\".into(), Some("\"quoted\" \\ back\\slash".into()), 1),
        ("nul\u{0}key".into(), Some("a\u{0}b".into()), 2),
        ("é\u{301}".into(), Some("e\u{301}\u{1F600}\u{10FFFF}".into()), 1),
        ("p".into(), None, 2),
    ]
}

fn spaces(tier: Tier) -> Vec<Space> {
    let q = tier == Tier::Quick;
    let mut v = vec![];
    let mut s = SyncSys::new(2);
    s.c12 = true;
    s.c01 = false;
    s.updates = small_updates();
    s.urgencies = vec![Urg::None, Urg::Low, Urg::High];
    s.avoids = vec![false, true];
    s.batches = true;
    v.push(Space { name: "R2-urgency", sys: s, depth: if q { 5 } else { 7 } });
    let mut s = SyncSys::new(2);
    s.c12 = true;
    s.c01 = false;
    s.updates = vec![("p".into(), Some("a".into()), 1), ("q".into(), Some("a".into()), 1)];
    s.big_budget = if q { 1 } else { 2 };
    s.deletes = false;
    s.urgencies = vec![Urg::None, Urg::High];
    v.push(Space { name: "R2-big-urgency", sys: s, depth: if q { 6 } else { 8 } });
    let mut s = SyncSys::new(2);
    s.c12 = true;
    s.c01 = false;
    s.tasks = vec![1, 2];
    s.updates = odd_updates();
    s.urgencies = vec![Urg::None, Urg::High];
    v.push(Space { name: "R2-odd-strings", sys: s, depth: if q { 5 } else { 6 } });
    // updates recorded with a wrong old value (a caller holding a stale copy of the task): what
    // reaches the chain and what the snapshot holds must still agree
    let mut s = SyncSys::new(2);
    s.c12 = true;
    s.c01 = false;
    s.updates = vec![("p".into(), Some("a".into()), 1), ("p".into(), Some("b".into()), 2), ("p".into(), None, 2)];
    s.stale_old = true;
    s.urgencies = vec![Urg::None, Urg::High];
    v.push(Space { name: "R2-stale-old-values", sys: s, depth: if q { 5 } else { 7 } });
    if !q {
        let mut s = SyncSys::new(3);
        s.c12 = true;
        s.c01 = false;
    s.c01 = false;
        s.updates = vec![("p".into(), Some("a".into()), 1), ("p".into(), Some("b".into()), 2)];
        s.urgencies = vec![Urg::None, Urg::Low, Urg::High];
        s.avoids = vec![false, true];
        v.push(Space { name: "R3-urgency", sys: s, depth: 6 });
    }
    v
}

/// One large scenario: thousands of tasks, snapshot, fresh replica.
fn many_tasks(rep: &Report, n: usize) {
    use crate::world::proxy::Ctl;
    use crate::world::replicas::with_replica;
    let mut w = World::new(1);
    let mut ops = vec![];
    for i in 0..n {
        let u = uuid::Uuid::from_u128(0x5000_0000u128 + i as u128);
        ops.push(taskchampion::Operation::Create { uuid: u });
        ops.push(taskchampion::Operation::Update {
            uuid: u,
            // dense multi-byte text in keys and values: whatever block size a reader or writer of the
            // (about 0.8 MB) snapshot uses, block boundaries fall inside multi-byte characters
            property: format!("k{}\u{43a}\u{43b}\u{44e}\u{447}", i % 7),
            old_value: None,
            value: Some(format!("välue {i} {}", "\u{1F600}\u{65e5}\u{df}".repeat(40))),
            timestamp: ts(1),
        });
    }
    crate::util::block_on(with_replica(&mut w.reps[0], Ctl::new(), async |r| {
        r.commit_operations(ops).await.unwrap();
    }));
    w.obs[0] = std::sync::Arc::new(obs_of(&mut w.reps[0]));
    let sys = {
        let mut s = SyncSys::new(1);
        s.c12 = true;
        s.c01 = false;
    s.c01 = false;
        s
    };
    let before = w.obs[0].clone();
    let out = do_sync(&mut w, 0, Urg::High, false, None, None);
    let r = out
        .result
        .clone()
        .map_err(|e| format!("sync-failed: {e}"))
        .and_then(|_| check_sync_step(&sys, None, &before, &w, &out, Urg::High, false))
        .and_then(|_| {
            if out.snapshots.len() != 1 {
                return Err(format!("snapshot-count: expected one snapshot of the {n}-task replica, got {}", out.snapshots.len()));
            }
            let want = crate::model::ops::replay_chain(w.chain.all_segments())?;
            fresh_from_snapshot(&w.chain, &want).map(|_| ())
        });
    rep.add("large_scenario_tasks", n as u64);
    if let Err(e) = r {
        rep.violation(Violation::new(
            format!("{}:many-tasks", e.split(':').next().unwrap_or("")),
            e,
            json!({"kind": "c12-many-tasks", "n": n}),
        ));
    }
}

/// A replica that has never synchronized and holds no task, but does hold pending operations
/// (create, change, purge again), meets a server that offers a snapshot: it holds data, so the
/// snapshot must not replace it - afterwards it equals the replay of the chain like everyone else.
/// Run on both storages (their `is_empty` implementations are separate code).
pub fn pending_only_replica(rep: &Report) {
    use crate::world::mserver::{ChainState, MServer};
    use crate::world::proxy::Ctl;
    use crate::world::replicas::{observe, tasks_str, tid, with_replica};
    use crate::world::store::{Kind, Store};
    use taskchampion::Operation;
    for kind in [Kind::Mem, Kind::Sqlite] {
        for shared in [true, false] {
            // (stores are created outside the runtime: opening SQLite blocks on it)
            let (mut a, mut b) = (Store::fresh(kind), Store::fresh(kind));
            let r: Result<(), String> = crate::util::block_on(async {
                let chain = std::sync::Arc::new(std::sync::Mutex::new(ChainState::default()));
                let sync = async |st: &mut Store, who: usize, urg: Urg| -> Result<(), String> {
                    let server = MServer::new(chain.clone(), who);
                    server.ctl.urgency.lock().unwrap().1 = Some(urg.to_real());
                    let mut boxed = server.boxed();
                    with_replica(st, Ctl::new(), async |rp| rp.sync(&mut boxed, false).await.map_err(|e| format!("sync-failed: {e:#}"))).await
                };
                let upd = |t: u8, p: &str, old: Option<&str>, v: Option<&str>| Operation::Update { uuid: tid(t), property: p.into(), old_value: old.map(|s| s.to_string()), value: v.map(|s| s.to_string()), timestamp: ts(1) };
                // A: a task, synchronized, snapshot uploaded
                with_replica(&mut a, Ctl::new(), async |rp| rp.commit_operations(vec![Operation::Create { uuid: tid(1) }, upd(1, "p", None, Some("a"))]).await).await.map_err(|e| e.to_string())?;
                sync(&mut a, 0, Urg::High).await?;
                if chain.lock().unwrap().snapshots.is_empty() {
                    return Err("harness: no snapshot was uploaded in the set-up".into());
                }
                // B: only pending operations, no task (the same task as A's, or another one)
                let t = if shared { 1 } else { 2 };
                with_replica(&mut b, Ctl::new(), async |rp| {
                    rp.commit_operations(vec![Operation::Create { uuid: tid(t) }, upd(t, "q", None, Some("b")), Operation::Delete { uuid: tid(t), old_task: [("q".to_string(), "b".to_string())].into_iter().collect() }]).await
                })
                .await
                .map_err(|e| e.to_string())?;
                for _ in 0..2 {
                    sync(&mut b, 1, Urg::None).await?;
                    sync(&mut a, 0, Urg::None).await?;
                }
                let (oa, ob) = (observe(&mut a).await, observe(&mut b).await);
                let want = crate::model::ops::replay_chain(chain.lock().unwrap().all_segments()).map_err(|e| format!("wire-format: {e}"))?;
                if ob.tasks != want || oa.tasks != want {
                    return Err(format!(
                        "snapshot-replaced-data: a replica holding only pending operations synced against a server offering a snapshot and ends with {} (the other replica: {}), the chain replays to {}",
                        tasks_str(&ob.tasks),
                        tasks_str(&oa.tasks),
                        tasks_str(&want)
                    ));
                }
                Ok(())
            });
            rep.add("pending_only_replica_scenarios", 1);
            if let Err(e) = r {
                rep.violation(Violation::new(format!("{}:pending-only:{kind:?}", e.split(':').next().unwrap_or("")), e, json!({"kind": "c12-pending-only", "storage": kind, "shared_task": shared})));
            }
        }
    }
}

/// Racing syncs while the server asks for snapshots: every snapshot uploaded in every
/// interleaving must still be the state of exactly its version.
fn races(rep: &Report, opts: &Opts) {
    use super::c02::{start_states_active, subsets, Race};
    use crate::explore::sched::{explore, ExploreCfg};
    use rayon::prelude::*;
    let q = opts.tier == Tier::Quick;
    let three = vec![("p".to_string(), Some("a".to_string()), 1), ("p".to_string(), Some("b".to_string()), 2), ("q".to_string(), Some("a".to_string()), 1)];
    let deadline = std::time::Instant::now() + std::time::Duration::from_secs_f64((opts.budget_s - rep.elapsed()).max(5.0));
    for (name, starts) in [
        ("races-R3-populated", start_states_active(3, 3, if q { 3 } else { 4 }, three.clone(), 0, true)),
        ("races-R3-fresh", start_states_active(3, 2, if q { 4 } else { 5 }, three.clone(), 0, false)),
    ] {
        let jobs: Vec<(usize, Vec<usize>)> = starts
            .iter()
            .enumerate()
            .flat_map(|(i, (w, _))| {
                subsets(w.reps.len())
                    .into_iter()
                    .filter(|s| s.iter().any(|&r| !w.obs[r].unsynced.is_empty()))
                    .map(move |s| (i, s))
            })
            .collect();
        let results: Vec<_> = jobs
            .par_iter()
            .map(|(i, racers)| {
                let sc = Race { world: starts[*i].0.clone(), racers: racers.clone(), urg: Urg::High, snapshots_only: true, must_be_absent: vec![], must_be_present: vec![], expect_tasks: None };
                let cfg = ExploreCfg { bound: if racers.len() >= 3 { 2 } else { usize::MAX }, max_schedules: 1_000_000, deadline: Some(deadline), seen: Some(Default::default()) };
                let (st, fails) = explore(&sc, &cfg);
                (*i, racers.clone(), st, fails)
            })
            .collect();
        let (mut schedules, mut nontrivial) = (0u64, 0u64);
        for (i, racers, st, fails) in results {
            schedules += st.schedules;
            nontrivial += st.nontrivial_outcomes.len() as u64;
            if st.capped {
                rep.set("exhaustive", false);
            }
            for f in fails.into_iter().take(1) {
                rep.violation(Violation::new(
                    format!("{}:{name}", f.what.split(':').next().unwrap_or("")),
                    f.what.clone(),
                    json!({"kind": "c02-race", "space": name, "urgency": Urg::High, "snapshots_only": true, "replicas": starts[i].0.reps.len(),
                           "prior_history": super::c01::trace_json(&starts[i].1), "racers": racers, "schedule": super::c02::trace_to_json(&f.trace), "observed": f.what}),
                ));
            }
        }
        rep.add("race_schedules", schedules);
        rep.add("states", starts.len() as u64);
        rep.add("transitions", schedules);
        rep.add("traces_validated_against_impl", schedules);
        rep.add("distinct_nontrivial", nontrivial);
        println!("[C12] {name}: {} start states, {} race sets, {schedules} schedules, {nontrivial} distinct outcomes with a snapshot uploaded while a version was rejected ({:.1}s)", starts.len(), jobs.len(), rep.elapsed());
    }
}

pub fn run(opts: &Opts) -> i32 {
    let rep = Report::new("C12", "model_checking", opts);
    rep.set("exhaustive", true);
    rep.set("rule", "histories of create/update/delete/1MB-update/sync with the server's snapshot urgency in {None,Low,High} and avoid_snapshots in {false,true} chosen by the explorer at every sync; every uploaded snapshot is inflated and parsed independently (flate2 + serde_json::Value) and compared with the model replay of the chain up to exactly its version; every state additionally starts a brand-new replica against a server that serves the latest snapshot and has discarded all versions up to it; plus a never-synchronized replica holding only pending operations meeting a snapshot, on both storages; non-trivial = states whose chain carries a snapshot a fresh replica was started from, or that need rebasing to quiesce");
    rep.assume("harness chain server implements docs/src/sync-protocol.md; a snapshot is served for the latest snapshotted version on the chain");
    rep.assume("'produced only when urgency meets the threshold' is asserted as snapshot => urgency>=threshold; the converse is only counted (urgency_met_but_no_snapshot)");
    run_spaces("C12", spaces(opts.tier), opts, &rep);
    many_tasks(&rep, if opts.tier == Tier::Quick { 2000 } else { 20000 });
    pending_only_replica(&rep);
    races(&rep, opts);
    rep.finish()
}
