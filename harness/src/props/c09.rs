//! C09 – the object-store server keeps one version chain under concurrent clients (E-SCHED).

use crate::explore::sched::{explore_par, Choice, ExploreCfg, GateH, Outcome, Scenario, TaskFut};
use crate::util::{Opts, Report, Tier, Violation};
use crate::world::cloud::*;
use serde_json::json;
use std::collections::{BTreeMap, BTreeSet};
use std::sync::Arc;
use taskchampion::server::verif::{Gate, MemStore};
use taskchampion::server::{AddVersionResult, GetVersionResult, Server};
use uuid::Uuid;

#[derive(Clone, Copy, Debug, PartialEq, Eq, serde::Serialize, serde::Deserialize)]
pub enum Prog {
    /// add a version on the head this client knows; on rejection walk forward and retry once
    Add,
    /// add two versions in a row (the second on top of the first)
    AddTwo,
    /// walk the chain from nil
    Walk,
    /// add a version, store a snapshot for it, read the snapshot back
    AddSnap,
}

#[derive(Clone, Debug, PartialEq, Eq, Hash)]
pub enum Ev {
    Added { parent: Uuid, id: Uuid, payload: Vec<u8> },
    Rejected { parent: Uuid, expected: Uuid },
    Got { parent: Uuid, id: Uuid, payload: Vec<u8> },
    NoSuch { parent: Uuid },
    SnapAdded { v: Uuid },
    SnapGot { v: Option<Uuid>, ok: bool },
    Failed(String),
}

#[derive(Clone, Copy, Debug, PartialEq, Eq, serde::Serialize, serde::Deserialize)]
pub enum Leftover {
    None,
    /// a version object whose parent is the head's parent (a loser of an old race)
    SiblingOfHead,
    /// a version object whose parent is the head (an attempt that never committed)
    ChildOfHead,
}

#[derive(Clone, Debug, serde::Serialize, serde::Deserialize)]
pub struct Sc {
    pub progs: Vec<Prog>,
    pub base_len: usize,
    pub page_size: usize,
    pub leftover: Leftover,
    /// the store is brand new (no salt object): every client's first requests are the salt
    /// lookup / creation of its constructor, interleaved like everything else
    #[serde(default)]
    pub fresh: bool,
    /// the start layout, built once and forked for every execution
    #[serde(skip)]
    pub proto: std::sync::OnceLock<(MemStore, Vec<Uuid>, Option<Uuid>)>,
}

impl Sc {
    pub fn new(progs: Vec<Prog>, base_len: usize, page_size: usize, leftover: Leftover) -> Sc {
        Sc { progs, base_len, page_size, leftover, fresh: false, proto: Default::default() }
    }

    pub fn fresh(progs: Vec<Prog>, page_size: usize) -> Sc {
        Sc { progs, base_len: 0, page_size, leftover: Leftover::None, fresh: true, proto: Default::default() }
    }

    fn proto(&self) -> &(MemStore, Vec<Uuid>, Option<Uuid>) {
        self.proto.get_or_init(|| {
            if self.fresh {
                return (new_store_unsalted(self.page_size), vec![], None);
            }
            let store = new_store(self.page_size);
            let base = build_chain(&store, self.base_len);
            let head = base.last().copied().unwrap_or(Uuid::nil());
            let mut leftover_id = None;
            let lo_parent = match self.leftover {
                Leftover::None => None,
                Leftover::SiblingOfHead if self.base_len >= 1 => Some(if self.base_len >= 2 { base[self.base_len - 2] } else { Uuid::nil() }),
                Leftover::ChildOfHead => Some(head),
                _ => None,
            };
            if let Some(p) = lo_parent {
                let id = Uuid::from_u128(0xDEAD_0000_0000_0000_0000_0000_0000_0001);
                let sealed = taskchampion::server::verif::seal(b"0123456789abcdef", SECRET, id, b"leftover-loser".to_vec()).expect("seal");
                store.raw_put(&version_name(p, id), sealed, real_now());
                leftover_id = Some(id);
            }
            (store, base, leftover_id)
        })
    }
}

pub struct Ctx {
    store: MemStore,
    base: Vec<Uuid>,
    leftover_id: Option<Uuid>,
}

async fn walk(c: &mut dyn Server, mut cur: Uuid, log: &mut Vec<Ev>, max: usize) -> Uuid {
    for _ in 0..max {
        match c.get_child_version(cur).await {
            Ok(GetVersionResult::Version { version_id, parent_version_id, history_segment }) => {
                log.push(Ev::Got { parent: parent_version_id, id: version_id, payload: history_segment });
                if parent_version_id != cur {
                    log.push(Ev::Failed(format!("asked for the child of {cur}, got a child of {parent_version_id}")));
                    return cur;
                }
                cur = version_id;
            }
            Ok(GetVersionResult::NoSuchVersion) => {
                log.push(Ev::NoSuch { parent: cur });
                return cur;
            }
            Err(e) => {
                log.push(Ev::Failed(format!("get_child_version: {e:#}")));
                return cur;
            }
        }
    }
    cur
}

async fn add(c: &mut dyn Server, parent: Uuid, payload: Vec<u8>, log: &mut Vec<Ev>) -> Option<Result<Uuid, Uuid>> {
    match c.add_version(parent, payload.clone()).await {
        Ok((AddVersionResult::Ok(id), _)) => {
            log.push(Ev::Added { parent, id, payload });
            Some(Ok(id))
        }
        Ok((AddVersionResult::ExpectedParentVersion(e), _)) => {
            log.push(Ev::Rejected { parent, expected: e });
            Some(Err(e))
        }
        Err(e) => {
            log.push(Ev::Failed(format!("add_version: {e:#}")));
            None
        }
    }
}

async fn run_prog(store: MemStore, who: usize, prog: Prog, head: Uuid, gate: Arc<dyn Gate>, fresh: bool) -> Vec<Ev> {
    let mut c = if fresh {
        match client_gated(&store, who, Some(gate), 255).await {
            Ok(c) => c,
            Err(e) => return vec![Ev::Failed(format!("open: {e}"))],
        }
    } else {
        client(&store, who, Some(gate), 255).await
    };
    let mut log = vec![];
    let payload = |k: usize| format!("client{who}-v{k}").into_bytes();
    match prog {
        Prog::Walk => {
            walk(&mut c, Uuid::nil(), &mut log, 8).await;
        }
        Prog::Add | Prog::AddTwo | Prog::AddSnap => {
            let mut mine = None;
            match add(&mut c, head, payload(1), &mut log).await {
                Some(Ok(id)) => mine = Some(id),
                Some(Err(_)) => {
                    let cur = walk(&mut c, head, &mut log, 8).await;
                    if let Some(Ok(id)) = add(&mut c, cur, payload(1), &mut log).await {
                        mine = Some(id);
                    }
                }
                None => {}
            }
            if let Some(id) = mine {
                if prog == Prog::AddTwo {
                    add(&mut c, id, payload(2), &mut log).await;
                }
                if prog == Prog::AddSnap {
                    match c.add_snapshot(id, format!("snapshot-of-{who}").into_bytes()).await {
                        Ok(()) => log.push(Ev::SnapAdded { v: id }),
                        Err(e) => log.push(Ev::Failed(format!("add_snapshot: {e:#}"))),
                    }
                    match c.get_snapshot().await {
                        Ok(Some((v, bytes))) => log.push(Ev::SnapGot { v: Some(v), ok: bytes.starts_with(b"snapshot-of-") }),
                        Ok(None) => log.push(Ev::SnapGot { v: None, ok: true }),
                        Err(e) => log.push(Ev::Failed(format!("get_snapshot: {e:#}"))),
                    }
                }
            }
        }
    }
    log
}

impl Scenario for Sc {
    type Ctx = Ctx;
    type Out = Vec<Ev>;

    fn n_tasks(&self) -> usize {
        self.progs.len()
    }

    fn build(&self, gates: Vec<GateH>) -> (Ctx, Vec<TaskFut<Vec<Ev>>>) {
        let (proto, base, leftover_id) = self.proto();
        let store = proto.fork();
        taskchampion::server::verif::set_version_id_counter(Some(1000));
        taskchampion::server::verif::set_salt_counter(if self.fresh { Some(1) } else { None });
        let base = base.clone();
        let leftover_id = *leftover_id;
        let head = base.last().copied().unwrap_or(Uuid::nil());
        let mut futs: Vec<TaskFut<Vec<Ev>>> = vec![];
        for (i, p) in self.progs.iter().enumerate() {
            let gate: Arc<dyn Gate> = Arc::new(SchedGate { gate: gates[i].clone(), front_puts: false });
            futs.push(Box::pin(run_prog(store.clone(), i, *p, head, gate, self.fresh)));
        }
        (Ctx { store, base, leftover_id }, futs)
    }

    fn state_hash(&self, ctx: &Ctx) -> u64 {
        store_hash(&ctx.store)
    }

    fn response_hash(&self, ctx: &Ctx, _task: usize, label: &str) -> u64 {
        response_hash(&ctx.store, label)
    }

    fn check(&self, ctx: Ctx, results: Vec<Option<Vec<Ev>>>, _stopped: &[bool], _trace: &[(Choice, String)]) -> Result<Outcome, String> {
        let mut payloads: BTreeMap<Uuid, Vec<u8>> = BTreeMap::new();
        let mut acked: Vec<(Uuid, Uuid)> = vec![];
        let mut parent = Uuid::nil();
        for (k, id) in ctx.base.iter().enumerate() {
            payloads.insert(*id, format!("base-{k}").into_bytes());
            acked.push((parent, *id));
            parent = *id;
        }
        let mut rejections = 0;
        let mut logs = vec![];
        for (i, r) in results.into_iter().enumerate() {
            let log = r.ok_or_else(|| format!("deadlock: client {i} did not finish"))?;
            for e in &log {
                match e {
                    Ev::Added { parent, id, payload } => {
                        payloads.insert(*id, payload.clone());
                        acked.push((*parent, *id));
                    }
                    Ev::Rejected { .. } => rejections += 1,
                    _ => {}
                }
            }
            if self.fresh {
                if let Some(Ev::Failed(m)) = log.iter().find(|e| matches!(e, Ev::Failed(_))) {
                    return Err(format!("first-connect-failure: client {i} ({:?}) connecting to a brand-new store at the same time as the others failed (no fault was injected): {m}", self.progs[i]));
                }
            }
            logs.push(log);
        }
        // at most one acknowledged child per parent
        let mut by_parent: BTreeMap<Uuid, Vec<Uuid>> = BTreeMap::new();
        for (p, c) in &acked {
            by_parent.entry(*p).or_default().push(*c);
        }
        for (p, cs) in &by_parent {
            if cs.len() > 1 {
                return Err(format!("two-children: parent {p} has {} acknowledged children", cs.len()));
            }
        }
        // the final chain by object names
        let lay = layout(&ctx.store);
        let (chain, reached_nil) = lay.chain();
        if !reached_nil {
            return Err(format!("broken-chain: walking back from latest {:?} over object names does not reach the first version", lay.latest));
        }
        let on_chain: BTreeSet<(Uuid, Uuid)> = chain.iter().cloned().collect();
        for pc in &acked {
            if !on_chain.contains(pc) {
                return Err(format!("acknowledged-lost: version {} (child of {}) was acknowledged but is not on the final chain", pc.1, pc.0));
            }
        }
        // everything any client was served is on the final chain, with the submitted bytes
        for (i, log) in logs.iter().enumerate() {
            for e in log {
                match e {
                    Ev::Got { parent, id, payload } => {
                        if !on_chain.contains(&(*parent, *id)) {
                            let what = if Some(*id) == ctx.leftover_id { "a leftover loser object" } else { "an object that is not on the final chain" };
                            return Err(format!("off-chain-served: client {i} was served {what} ({id}, child of {parent})"));
                        }
                        if payloads.get(id) != Some(payload) {
                            return Err(format!("wrong-bytes: client {i} received version {id} with bytes that differ from what was submitted"));
                        }
                    }
                    Ev::SnapGot { ok: false, .. } => return Err(format!("snapshot-corrupt: client {i} read back a snapshot with foreign content")),
                    Ev::Rejected { expected, .. } => {
                        // the conflict must name a version that was (at some time) the latest: it must be on the final chain
                        if !expected.is_nil() && !chain.iter().any(|(_, c)| c == expected) {
                            return Err(format!("bad-conflict: client {i} was told to rebase on {expected}, which is not on the chain"));
                        }
                    }
                    _ => {}
                }
            }
        }
        // a fresh client sees exactly the chain
        let seen = walk_from(&ctx.store, Uuid::nil(), 16)?;
        let want: Vec<(Uuid, Vec<u8>)> = chain.iter().map(|(_, c)| (*c, payloads.get(c).cloned().unwrap_or_default())).collect();
        if seen != want {
            return Err(format!(
                "fresh-walk: a fresh client walking from the first version sees {} versions, the chain has {} (or payloads differ)",
                seen.len(),
                want.len()
            ));
        }
        // outcome: chain as client/payload sequence + what each client observed (ids renamed by payload)
        let name = |id: &Uuid| payloads.get(id).map(|p| String::from_utf8_lossy(p).to_string()).unwrap_or("?".into());
        let obs: Vec<Vec<String>> = logs
            .iter()
            .map(|l| {
                l.iter()
                    .map(|e| match e {
                        Ev::Added { id, .. } => format!("added {}", name(id)),
                        Ev::Rejected { expected, .. } => format!("rejected->{}", name(expected)),
                        Ev::Got { id, .. } => format!("got {}", name(id)),
                        Ev::NoSuch { parent } => format!("nosuch {}", name(parent)),
                        Ev::SnapAdded { v } => format!("snap {}", name(v)),
                        Ev::SnapGot { v, .. } => format!("snapgot {:?}", v.as_ref().map(name)),
                        Ev::Failed(s) => format!("failed {s}"),
                    })
                    .collect()
            })
            .collect();
        let chain_names: Vec<String> = chain.iter().map(|(_, c)| name(c)).collect();
        Ok(Outcome {
            outcome_hash: crate::util::h64(&(chain_names, obs)),
            nontrivial: rejections > 0,
        })
    }
}

fn scenarios(tier: Tier) -> Vec<(Sc, usize)> {
    use Prog::*;
    let mut v = vec![];
    let q = tier == Tier::Quick;
    // pairs: all interleavings
    for progs in [vec![Add, Add], vec![Add, Walk], vec![Add, AddSnap], vec![AddTwo, Walk], vec![AddTwo, Add]] {
        for base_len in [0usize, 2] {
            for page_size in [1usize, 2] {
                for leftover in [Leftover::None, Leftover::SiblingOfHead, Leftover::ChildOfHead] {
                    if q && page_size == 2 && leftover != Leftover::None {
                        continue;
                    }
                    if base_len == 0 && leftover == Leftover::SiblingOfHead {
                        continue;
                    }
                    let big = progs.contains(&AddTwo) || (progs.contains(&AddSnap) && base_len > 0) || (progs.contains(&Walk) && base_len > 0);
                    let _ = big;
                    // with state-key pruning every pair is explored over all interleavings
                    v.push((Sc::new(progs.clone(), base_len, page_size, leftover), usize::MAX));
                }
            }
        }
    }
    // brand-new store: the clients' constructors race for the creation of the salt object
    for progs in [vec![Add, Walk], vec![Add, Add], vec![AddSnap, Walk]] {
        v.push((Sc::fresh(progs, 2), usize::MAX));
    }
    v.push((Sc::fresh(vec![Add, Add, Walk], 2), if q { 2 } else { usize::MAX }));
    // triples and quadruples: preemption-bounded
    // triples: preemption bound 3 in the quick tier, all interleavings in the thorough tier
    let b3 = if q { 3 } else { usize::MAX };
    for progs in [vec![Add, Add, Walk], vec![Add, Add, Add], vec![Add, AddSnap, Walk]] {
        for leftover in [Leftover::None, Leftover::ChildOfHead] {
            v.push((Sc::new(progs.clone(), 1, 1, leftover), b3));
        }
    }
    if !q {
        v.push((Sc::new(vec![Add, Add, Add, Walk], 1, 1, Leftover::None), 4));
        v.push((Sc::new(vec![AddTwo, AddTwo, Walk], 1, 2, Leftover::SiblingOfHead), usize::MAX));
    }
    v
}

/// Several handles connecting to a brand-new store at once (used by C08 as well, whose statement
/// covers "one or several client handles" from the very first call): explores the fresh-store
/// scenarios over all interleavings and returns (schedules, violations).
pub fn first_connect(tier: Tier) -> (u64, Vec<Violation>) {
    let mut schedules = 0;
    let mut out = vec![];
    for (sc, bound) in scenarios(tier).into_iter().filter(|(sc, _)| sc.fresh) {
        let cfg = ExploreCfg { bound, max_schedules: 2_000_000, deadline: None, seen: Some(Default::default()) };
        let (st, fails) = explore_par(&sc, &cfg);
        schedules += st.schedules;
        for f in fails.into_iter().take(1) {
            out.push(Violation::new(
                format!("{}:first-connect:{:?}", f.what.split(':').next().unwrap_or(""), sc.progs),
                f.what.clone(),
                json!({"kind": "c09-schedule", "scenario": sc, "schedule": super::c02::trace_to_json(&f.trace), "observed": f.what}),
            ));
        }
    }
    (schedules, out)
}

pub fn run(opts: &Opts) -> i32 {
    let rep = Report::new("C09", "model_checking", opts);
    rep.set("exhaustive", true);
    rep.set("rule", "2-4 clients of the real CloudServer over one in-memory object store run programs {add a version (walk + retry once on rejection), add two, walk from nil, add + snapshot}; every get/put/del/compare-and-swap and every list PAGE (page size 1 and 2) is a scheduling point; pairs: all interleavings (state-key pruning, self-checked against the unpruned search where that completes), triples: preemption bound 3 (thorough: all interleavings), quadruple: bound 4; start layouts: chain length 0/1/2, with a leftover loser object (sibling of the head / child of the head) or none; oracle evaluated from call results and object names only; non-trivial = executions in which a version was rejected");
    rep.assume("in-memory Service obeys the Service trait contract (atomic single requests, compare-and-swap); cleanup disabled by fixing the random draw (C10 covers it)");
    let deadline = std::time::Instant::now() + std::time::Duration::from_secs_f64(opts.budget_s);
    let scs = scenarios(opts.tier);
    let total = scs.len();
    let (mut schedules, mut steps, mut nontrivial, mut outcomes) = (0u64, 0u64, 0u64, 0u64);
    use rayon::prelude::*;
    let quick = opts.tier == Tier::Quick;
    let results: Vec<_> = scs
        .into_par_iter()
        .map(|(sc, bound)| {
            let bound = match std::env::var("TCMC_BOUND").ok().as_deref() { Some("max") => usize::MAX, Some(n) => n.parse().unwrap_or(bound), None => bound };
            let cfg = ExploreCfg { bound, max_schedules: if quick { 400_000 } else { 20_000_000 }, deadline: Some(deadline), seen: Some(Default::default()) };
            let (st, fails) = explore_par(&sc, &cfg);
            // pruning self-check wherever the unpruned search is small enough to complete
            let sc_cap = if quick { 4_000 } else { 300_000 };
            let selfcheck = if fails.is_empty() && st.schedules < sc_cap / 4 { crate::explore::sched::pruning_selfcheck(&sc, bound, sc_cap) } else { None };
            (sc, bound, st, fails, selfcheck)
        })
        .collect();
    for (i, (sc, bound, st, fails, selfcheck)) in results.into_iter().enumerate() {
        match selfcheck {
            Some(Ok(_)) => rep.add("pruning_selfcheck_scenarios_equal_to_unpruned", 1),
            Some(Err(e)) => {
                eprintln!("MACHINERY ERROR: C09 state-key pruning is unsound on {:?}: {e}", sc.progs);
                std::process::exit(2);
            }
            None => rep.add("pruning_selfcheck_scenarios_skipped_unpruned_too_large", 1),
        }
        schedules += st.schedules;
        steps += st.steps;
        nontrivial += st.nontrivial_outcomes.len() as u64;
        outcomes += st.outcomes.len() as u64;
        if st.capped {
            rep.set("exhaustive", false);
            rep.add("scenarios_capped", 1);
        }
        if std::env::var("TCMC_VERBOSE").is_ok() || i < 2 {
            println!("[C09] {:?} base={} page={} leftover={:?} fresh={} bound={}: {} schedules, {} distinct outcomes ({} with rejection), capped={} ({:.1}s)",
                sc.progs, sc.base_len, sc.page_size, sc.leftover, sc.fresh, if bound == usize::MAX { "none".to_string() } else { bound.to_string() }, st.schedules, st.outcomes.len(), st.nontrivial_outcomes.len(), st.capped, rep.elapsed());
        }
        if let Some(t) = st.sample_traces.first() {
            if i % 7 == 0 {
                rep.sample(json!({"scenario": sc, "schedule": t.iter().map(|(c, l)| format!("client{}: {}", c.task, l)).collect::<Vec<_>>()}));
            }
        }
        for f in fails.into_iter().take(1) {
            let choices: Vec<Choice> = f.trace.iter().map(|(c, _)| *c).collect();
            let r1 = crate::explore::sched::replay(&sc, &choices).map(|(_, r)| r.err());
            let r2 = crate::explore::sched::replay(&sc, &choices).map(|(_, r)| r.err());
            if r1 != r2 || !matches!(r1, Ok(Some(_))) {
                // ids are random: compare classes only
                let cls = |r: &Result<Option<String>, String>| r.clone().ok().flatten().map(|s| s.split(':').next().unwrap_or("").to_string());
                if cls(&r1) != cls(&r2) || cls(&r1).is_none() {
                    eprintln!("MACHINERY ERROR: C09 violation does not replay deterministically: {r1:?} vs {r2:?}");
                    std::process::exit(2);
                }
            }
            rep.violation(Violation::new(
                format!("{}:{:?}", f.what.split(':').next().unwrap_or(""), sc.progs),
                f.what.clone(),
                json!({"kind": "c09-schedule", "scenario": sc, "schedule": super::c02::trace_to_json(&f.trace), "observed": f.what}),
            ));
        }
    }
    rep.add("states", total as u64);
    rep.add("transitions", steps);
    rep.add("schedules", schedules);
    rep.add("traces_validated_against_impl", schedules);
    rep.add("distinct_nontrivial", nontrivial);
    rep.add("distinct_outcomes", outcomes);
    println!("[C09] {total} scenarios, {schedules} schedules, {steps} scheduled requests, {outcomes} distinct outcomes, {nontrivial} with a rejected version ({:.1}s)", rep.elapsed());
    rep.finish()
}

pub fn replay(case: &serde_json::Value) -> Result<(), String> {
    let sc: Sc = serde_json::from_value(case["scenario"].clone()).map_err(|e| e.to_string())?;
    let choices: Vec<Choice> = case["schedule"].as_array().unwrap().iter().map(|e| serde_json::from_value(e["choice"].clone()).unwrap()).collect();
    let (trace, r) = crate::explore::sched::replay(&sc, &choices)?;
    for (c, l) in &trace {
        println!("  client{} {}", c.task, l);
    }
    r.map(|_| ())
}
