//! C08 – every server backend implements the version-chain protocol exactly
//! (E-DIFF: every call sequence up to a depth, in lock step with the reference chain model).

use crate::util::{Opts, Report, Tier, Violation};
use crate::world::backends::{Backend, BackendKind};
use rayon::prelude::*;
use serde_json::json;
use taskchampion::server::{AddVersionResult, GetVersionResult};
use uuid::Uuid;

#[derive(Clone, Copy, Debug, PartialEq, Eq, Hash, serde::Serialize, serde::Deserialize)]
pub enum ParentSel {
    Nil,
    Latest,
    /// the first version on the chain (stale once there are two)
    First,
    Unknown,
}

#[derive(Clone, Copy, Debug, PartialEq, Eq, Hash, serde::Serialize, serde::Deserialize)]
pub enum Payload {
    Small,
    Empty,
    AllBytes,
    Big,
}

#[derive(Clone, Copy, Debug, PartialEq, Eq, Hash, serde::Serialize, serde::Deserialize)]
pub enum Call {
    Add { h: usize, parent: ParentSel, payload: Payload },
    /// get the child of: 0 = nil, k = the k-th version on the chain, 99 = an unknown id
    GetChild { h: usize, of: usize },
    AddSnapshot { h: usize, at_latest: bool },
    GetSnapshot { h: usize },
    Reopen { h: usize },
}

fn payload_bytes(p: Payload, salt: usize) -> Vec<u8> {
    match p {
        Payload::Small => format!("x{salt}").into_bytes(),
        Payload::Empty => vec![],
        Payload::AllBytes => {
            let mut v: Vec<u8> = (0..=255u8).collect();
            v.push(salt as u8);
            v
        }
        Payload::Big => {
            let mut v = vec![0xA5u8; 300_000];
            v[0] = salt as u8;
            v
        }
    }
}

#[derive(Default, Clone)]
struct Model {
    chain: Vec<(Uuid, Uuid, Vec<u8>)>, // id, parent, bytes
    snapshots: Vec<(Uuid, Vec<u8>)>,
}

fn unknown() -> Uuid {
    Uuid::from_u128(0x0BAD_0000_0000_0000_0000_0000_0000_0BAD)
}

fn alphabet(kind: BackendKind, handles: usize, tier: Tier) -> Vec<Call> {
    if (tier == Tier::Quick && kind == BackendKind::GitLocal) || matches!(kind, BackendKind::GitRemote | BackendKind::GitRemoteFresh) {
        // process spawning does not scale across cores in this sandbox (measured: 16 parallel git
        // loops take 16x as long), so the git backends get a reduced alphabet in the quick tier
        let mut v = vec![
            Call::Add { h: 0, parent: ParentSel::Latest, payload: Payload::AllBytes },
            Call::Add { h: 0, parent: ParentSel::First, payload: Payload::Small },
            Call::Add { h: 0, parent: ParentSel::Unknown, payload: Payload::Small },
            Call::GetChild { h: 0, of: 0 },
            Call::GetChild { h: 0, of: 1 },
            Call::AddSnapshot { h: 0, at_latest: true },
            Call::GetSnapshot { h: 0 },
        ];
        if handles > 1 {
            v.extend([Call::Add { h: 1, parent: ParentSel::Latest, payload: Payload::Small }, Call::GetChild { h: 1, of: 0 }, Call::GetSnapshot { h: 1 }]);
        } else {
            v.extend([Call::Reopen { h: 0 }, Call::GetChild { h: 0, of: 99 }]);
        }
        return v;
    }
    let mut v = vec![];
    for h in 0..handles {
        for parent in [ParentSel::Latest, ParentSel::Nil, ParentSel::First, ParentSel::Unknown] {
            if h == 1 && parent == ParentSel::Unknown {
                continue;
            }
            v.push(Call::Add { h, parent, payload: Payload::Small });
        }
        if h == 0 {
            v.push(Call::Add { h, parent: ParentSel::Latest, payload: Payload::AllBytes });
            v.push(Call::Add { h, parent: ParentSel::Latest, payload: Payload::Empty });
            if tier == Tier::Thorough || matches!(kind, BackendKind::Cloud | BackendKind::Local) {
                v.push(Call::Add { h, parent: ParentSel::Latest, payload: Payload::Big });
            }
        }
        for of in [0usize, 1, 2, 99] {
            if h == 1 && of == 99 {
                continue;
            }
            v.push(Call::GetChild { h, of });
        }
        if kind != BackendKind::Local {
            v.push(Call::AddSnapshot { h, at_latest: true });
            if h == 0 {
                v.push(Call::AddSnapshot { h, at_latest: false });
            }
        }
        v.push(Call::GetSnapshot { h });
    }
    if matches!(kind, BackendKind::Local | BackendKind::GitLocal | BackendKind::GitRemote) {
        v.push(Call::Reopen { h: 0 });
    }
    v
}

/// Execute one call sequence on a fresh backend in lock step with the model.
pub fn run_sequence(kind: BackendKind, handles: usize, seq: &[Call]) -> Result<(bool, usize), String> {
    crate::util::block_on(async {
        // open only the handles the sequence uses (all of them are opened before the first call)
        let used = seq.iter().map(|c| match c { Call::Add { h, .. } | Call::GetChild { h, .. } | Call::AddSnapshot { h, .. } | Call::GetSnapshot { h } | Call::Reopen { h } => *h }).max().unwrap_or(0) + 1;
        let mut b = Backend::new(kind, used.min(handles)).await;
        let mut m = Model::default();
        let mut rejected = 0;
        let mut last_adder: Option<usize> = None;
        let mut stale_retries = 0;
        for (step, call) in seq.iter().enumerate() {
            let ctx = |what: String| format!("{what} [step {step}: {call:?} after {:?}]", &seq[..step]);
            match *call {
                Call::Add { h, parent, payload } => {
                    let p = match parent {
                        ParentSel::Nil => Uuid::nil(),
                        ParentSel::Latest => m.chain.last().map(|v| v.0).unwrap_or(Uuid::nil()),
                        ParentSel::First => m.chain.first().map(|v| v.0).unwrap_or(unknown()),
                        ParentSel::Unknown => unknown(),
                    };
                    let bytes = payload_bytes(payload, step);
                    let before = b.store.as_ref().map(|s| s.dump());
                    let r = b.handles[h].add_version(p, bytes.clone()).await.map_err(|e| ctx(format!("backend-error: add_version failed: {e:#}")))?;
                    let latest = m.chain.last().map(|v| v.0);
                    let accept = latest.is_none() || latest == Some(p);
                    match (accept, r.0) {
                        (true, AddVersionResult::Ok(id)) => {
                            if m.chain.iter().any(|v| v.0 == id) || id.is_nil() {
                                return Err(ctx(format!("bad-version-id: accepted version got id {id} which is nil or already in use")));
                            }
                            m.chain.push((id, p, bytes));
                            last_adder = Some(h);
                        }
                        (false, AddVersionResult::ExpectedParentVersion(e)) => {
                            rejected += 1;
                            if Some(e) != latest {
                                return Err(ctx(format!("wrong-conflict: rejected version names {e} but the latest version is {latest:?}")));
                            }
                            if let (Some(bf), Some(s)) = (before, b.store.as_ref()) {
                                if bf != s.dump() {
                                    return Err(ctx("rejection-changed-store: a rejected add_version changed the object store".into()));
                                }
                            }
                        }
                        (true, AddVersionResult::ExpectedParentVersion(e)) => {
                            // A git clone that is behind its remote only learns the latest version when
                            // its push is rejected; it then names the latest version correctly, and
                            // the retry a replica makes must be accepted.
                            let stale_clone = matches!(kind, BackendKind::GitRemote | BackendKind::GitRemoteFresh) && Some(e) == latest && last_adder.is_some_and(|a| a != h);
                            if !stale_clone {
                                return Err(ctx(format!("wrongly-rejected: parent {p} is the latest version (or there is none) but the version was rejected naming {e}")));
                            }
                            match b.handles[h].add_version(p, bytes.clone()).await.map_err(|e| ctx(format!("backend-error: add_version retry failed: {e:#}")))?.0 {
                                AddVersionResult::Ok(id) => {
                                    m.chain.push((id, p, bytes));
                                    last_adder = Some(h);
                                    stale_retries += 1;
                                }
                                AddVersionResult::ExpectedParentVersion(e2) => {
                                    return Err(ctx(format!("wrongly-rejected: parent {p} is the latest version; rejected naming {e}, and the retry was rejected again naming {e2}")));
                                }
                            }
                        }
                        (false, AddVersionResult::Ok(id)) => {
                            return Err(ctx(format!("wrongly-accepted: parent {p} is not the latest version {latest:?} but the version was accepted as {id}")));
                        }
                    }
                }
                Call::GetChild { h, of } => {
                    let p = match of {
                        0 => Uuid::nil(),
                        99 => unknown(),
                        k => match m.chain.get(k - 1) {
                            Some(v) => v.0,
                            None => continue,
                        },
                    };
                    let r = b.handles[h].get_child_version(p).await.map_err(|e| ctx(format!("backend-error: get_child_version failed: {e:#}")))?;
                    let want = m.chain.iter().find(|v| v.1 == p);
                    match (want, r) {
                        (None, GetVersionResult::NoSuchVersion) => {}
                        (Some((id, parent, bytes)), GetVersionResult::Version { version_id, parent_version_id, history_segment }) => {
                            if version_id != *id || parent_version_id != *parent {
                                return Err(ctx(format!("wrong-child: child of {p} should be {id} but {version_id} (parent {parent_version_id}) was returned")));
                            }
                            if &history_segment != bytes {
                                return Err(ctx(format!("wrong-bytes: version {id} returned {} bytes that differ from the {} submitted", history_segment.len(), bytes.len())));
                            }
                        }
                        (None, GetVersionResult::Version { version_id, .. }) => {
                            return Err(ctx(format!("phantom-child: {p} has no child but {version_id} was returned")));
                        }
                        (Some((id, _, _)), GetVersionResult::NoSuchVersion) => {
                            return Err(ctx(format!("missing-child: {p} has the accepted child {id} but 'no such version' was returned")));
                        }
                    }
                }
                Call::AddSnapshot { h, at_latest } => {
                    let v = if at_latest { m.chain.last() } else { m.chain.first() };
                    let Some(v) = v.map(|v| v.0) else { continue };
                    let bytes = format!("snapshot {step} \u{0} \u{ff}").into_bytes();
                    b.handles[h].add_snapshot(v, bytes.clone()).await.map_err(|e| ctx(format!("backend-error: add_snapshot failed: {e:#}")))?;
                    m.snapshots.push((v, bytes));
                }
                Call::GetSnapshot { h } => {
                    let r = b.handles[h].get_snapshot().await.map_err(|e| ctx(format!("backend-error: get_snapshot failed: {e:#}")))?;
                    match r {
                        None => {
                            if !m.snapshots.is_empty() {
                                return Err(ctx("snapshot-lost: snapshots were stored but none is returned".into()));
                            }
                        }
                        Some((v, bytes)) => {
                            if !m.snapshots.iter().any(|(sv, sb)| *sv == v && *sb == bytes) {
                                return Err(ctx(format!("snapshot-mismatch: returned snapshot for {v} ({} bytes) was never stored for that version", bytes.len())));
                            }
                        }
                    }
                }
                Call::Reopen { h } => b.reopen(h).await,
            }
        }
        if let Some(h) = &b.http {
            let c = h.state.lock().unwrap().complaints.clone();
            if !c.is_empty() {
                return Err(format!("http-protocol: the harness server saw requests outside docs/http.md: {c:?}"));
            }
        }
        let _ = stale_retries;
        Ok((rejected > 0, m.chain.len()))
    })
}

fn sequences(alpha: &[Call], depth: usize) -> Vec<Vec<Call>> {
    let mut out: Vec<Vec<Call>> = vec![vec![]];
    for _ in 0..depth {
        let mut next = Vec::with_capacity(out.len() * alpha.len());
        for s in &out {
            for c in alpha {
                // skip sequences that start with calls that do nothing on an empty chain
                let mut x = s.clone();
                x.push(*c);
                next.push(x);
            }
        }
        out = next;
    }
    out
}

pub fn run(opts: &Opts) -> i32 {
    let rep = Report::new("C08", "model_checking", opts);
    rep.set("exhaustive", true);
    rep.set("rule", "every sequence of exactly d calls over {add_version(parent in nil/latest/first/unknown; payload small, empty, all 256 byte values, 300 KB), get_child_version(nil / each known version / unknown), add_snapshot(latest / first), get_snapshot, re-open} from 1-2 handles, executed on a fresh instance of each backend (local; git local-only; git with a shared bare remote and two clones; real CloudServer over the in-memory object store; real HTTP client against a harness server written from docs/http.md) in lock step with the reference chain model; plus, for the object store, 2-3 handles whose first calls race on a brand-new store (every interleaving of their requests, salt creation included); non-trivial = sequences in which a version was rejected");
    rep.assume("HTTP: harness server implements docs/src/http.md; object store: in-memory Service; LocalServer::add_snapshot is unreachable!() by design and outside the alphabet for that backend");
    let q = opts.tier == Tier::Quick;
    let plan: Vec<(BackendKind, usize)> = vec![
        (BackendKind::Cloud, if q { 4 } else { 5 }),
        (BackendKind::Local, if q { 3 } else { 4 }),
        (BackendKind::Http, if q { 2 } else { 3 }),
        // cheap and unique configurations first: what a wall-clock budget cuts is the tail
        (BackendKind::GitRemoteFresh, 0),
        (BackendKind::GitLocal, if q { 2 } else { 3 }),
        (BackendKind::GitRemote, if q { 2 } else { 3 }),
    ];
    let only = std::env::var("TCMC_BACKEND").ok();
    if only.is_none() {
        // object store, several handles whose very first call races for the creation of the salt
        // object of a brand-new store: all interleavings of their requests (engine of C09)
        let (n, vs) = super::c09::first_connect(opts.tier);
        rep.add("first_connect_schedules", n);
        rep.add("traces_validated_against_impl", n);
        for v in vs {
            rep.violation(v);
        }
        println!("[C08] Cloud, brand-new store, 2-3 handles connecting at once: {n} schedules ({:.1}s)", rep.elapsed());
        // two whole replicas syncing at once, each through its own handle of the real backend:
        // every interleaving of their Server calls (local, object store; thorough: git remote)
        super::backend_race::run("C08", &rep, opts.tier);
    }
    if only.is_none() || only.as_deref() == Some("GitLocal") || only.as_deref() == Some("GitRemote") {
        // the git backend removes version files that a snapshot covers once their commits are
        // older than the retention period: a few directed sequences on repositories whose commits
        // are dated years back (git takes the dates from the environment; nothing else runs now)
        use Call::*;
        use ParentSel::*;
        std::env::set_var("GIT_COMMITTER_DATE", "2020-01-01T00:00:00Z");
        std::env::set_var("GIT_AUTHOR_DATE", "2020-01-01T00:00:00Z");
        let a = |h| Add { h, parent: Latest, payload: Payload::Small };
        let aged: Vec<(BackendKind, usize, Vec<Call>)> = vec![
            (BackendKind::GitLocal, 1, vec![a(0), a(0), a(0), AddSnapshot { h: 0, at_latest: false }, GetChild { h: 0, of: 1 }, GetChild { h: 0, of: 2 }, GetSnapshot { h: 0 }, a(0), GetChild { h: 0, of: 3 }]),
            (BackendKind::GitLocal, 1, vec![a(0), a(0), AddSnapshot { h: 0, at_latest: true }, GetSnapshot { h: 0 }, a(0), GetChild { h: 0, of: 2 }, AddSnapshot { h: 0, at_latest: false }, GetChild { h: 0, of: 2 }]),
            (BackendKind::GitRemote, 2, vec![a(0), a(0), a(0), AddSnapshot { h: 0, at_latest: false }, GetChild { h: 1, of: 1 }, GetChild { h: 1, of: 2 }, GetSnapshot { h: 1 }, a(1)]),
        ];
        let n = aged.len();
        for (kind, handles, seq) in aged {
            if let Err(e) = run_sequence(kind, handles, &seq) {
                rep.violation(Violation::new(
                    format!("{}:{kind:?}:aged", e.split(':').next().unwrap_or("")),
                    format!("{e} [repository whose commits are dated 2020]"),
                    json!({"kind": "c08-sequence", "backend": kind, "handles": handles, "sequence": seq, "aged": true}),
                ));
            }
        }
        std::env::remove_var("GIT_COMMITTER_DATE");
        std::env::remove_var("GIT_AUTHOR_DATE");
        rep.add("states", n as u64);
        rep.add("traces_validated_against_impl", n as u64);
        println!("[C08] git, commits older than the retention period: {n} directed sequences with snapshots ({:.1}s)", rep.elapsed());
    }
    for (kind, depth) in plan {
        if only.as_ref().is_some_and(|o| format!("{kind:?}") != *o) {
            continue;
        }
        let handles = Backend::max_handles(kind);
        let alpha = alphabet(kind, handles, opts.tier);
        let mut seqs = if depth == 0 { vec![] } else { sequences(&alpha, depth) };
        if kind == BackendKind::GitRemoteFresh {
            // two devices set up against a new, empty remote at the same time: directed sequences
            // only (every run derives two keys from fresh random salts)
            use Call::*;
            use ParentSel::*;
            let a = |h| Add { h, parent: Latest, payload: Payload::Small };
            seqs.extend([
                vec![a(0), GetChild { h: 1, of: 0 }, GetChild { h: 1, of: 1 }],
                vec![a(0), a(1), GetChild { h: 0, of: 1 }, GetChild { h: 1, of: 0 }, GetChild { h: 1, of: 1 }],
                vec![a(0), AddSnapshot { h: 0, at_latest: true }, GetSnapshot { h: 1 }, GetChild { h: 1, of: 0 }],
            ]);
            if !q {
                seqs.extend([vec![a(1), a(0), a(1), GetChild { h: 0, of: 2 }], vec![GetChild { h: 1, of: 0 }, a(0), GetSnapshot { h: 1 }, a(1), GetChild { h: 0, of: 1 }]]);
            }
        }
        if kind == BackendKind::GitRemote {
            // a few directed deeper sequences around a clone that is behind its remote (the
            // exhaustive depth is small for this backend because every call costs several git
            // processes)
            use Call::*;
            use ParentSel::*;
            let a0 = Add { h: 0, parent: Latest, payload: Payload::Small };
            seqs.extend([
                vec![a0, GetChild { h: 1, of: 0 }, Add { h: 1, parent: Nil, payload: Payload::Small }],
                vec![a0, a0, GetChild { h: 1, of: 1 }, Add { h: 1, parent: First, payload: Payload::Small }],
                vec![a0, GetChild { h: 1, of: 0 }, a0, GetChild { h: 1, of: 1 }, Add { h: 1, parent: First, payload: Payload::Small }],
                vec![a0, GetChild { h: 1, of: 0 }, Add { h: 1, parent: Latest, payload: Payload::Small }, GetChild { h: 0, of: 1 }, GetChild { h: 0, of: 2 }],
                vec![a0, Add { h: 1, parent: Latest, payload: Payload::Small }, a0, GetChild { h: 1, of: 2 }, GetChild { h: 1, of: 3 }],
                // a snapshot for the version this clone added, stored after another clone has
                // already pushed the next version (the two requests of one sync, overtaken)
                vec![a0, Add { h: 1, parent: Latest, payload: Payload::Small }, AddSnapshot { h: 0, at_latest: false }, GetSnapshot { h: 1 }, GetChild { h: 0, of: 1 }],
                vec![a0, a0, Add { h: 1, parent: Latest, payload: Payload::Small }, AddSnapshot { h: 0, at_latest: false }, AddSnapshot { h: 0, at_latest: true }, GetSnapshot { h: 1 }],
            ]);
        }
        let skipped = std::sync::atomic::AtomicU64::new(0);
        let work = || -> Vec<(usize, Result<(bool, usize), String>)> {
            seqs.par_iter()
                .enumerate()
                .map(|(i, s)| {
                    if rep.over_budget() {
                        skipped.fetch_add(1, std::sync::atomic::Ordering::Relaxed);
                        return (i, Ok((false, 0)));
                    }
                    (i, run_sequence(kind, handles, s))
                })
                .collect()
        };
        let results = if matches!(kind, BackendKind::GitLocal | BackendKind::GitRemote | BackendKind::GitRemoteFresh) {
            // spawning git from many threads only adds contention
            rayon::ThreadPoolBuilder::new().num_threads(2).build().unwrap().install(work)
        } else {
            work()
        };
        let mut nontrivial = 0u64;
        let mut maxlen = 0;
        for (i, r) in results {
            match r {
                Ok((nt, len)) => {
                    nontrivial += nt as u64;
                    maxlen = maxlen.max(len);
                }
                Err(e) => {
                    let note = crate::util::confirm_or_exit("C08", &e, || run_sequence(kind, handles, &seqs[i]).err());
                    let e = format!("{e}{note}");
                    rep.violation(Violation::new(
                        format!("{}:{kind:?}", e.split(':').next().unwrap_or("")),
                        e.clone(),
                        json!({"kind": "c08-sequence", "backend": kind, "handles": handles, "sequence": seqs[i], "observed": e}),
                    ));
                }
            }
        }
        let sk = skipped.load(std::sync::atomic::Ordering::Relaxed);
        if sk > 0 {
            rep.set("exhaustive", false);
        }
        rep.add("states", seqs.len() as u64);
        rep.add("transitions", seqs.iter().map(|s| s.len() as u64).sum::<u64>());
        rep.add("traces_validated_against_impl", seqs.len() as u64 - sk);
        rep.add("distinct_nontrivial", nontrivial);
        rep.set(&format!("backend_{kind:?}"), json!({"handles": handles, "alphabet": alpha.len(), "depth": depth, "sequences": seqs.len(), "skipped_for_budget": sk, "with_rejection": nontrivial, "longest_chain": maxlen}));
        rep.sample(json!({"backend": format!("{kind:?}"), "sequence": seqs[seqs.len() / 2]}));
        println!("[C08] {kind:?}: alphabet {} ^ depth {depth} = {} sequences, {nontrivial} with a rejection, {sk} skipped ({:.1}s)", alpha.len(), seqs.len(), rep.elapsed());
    }
    replica_level(&rep, opts.tier);
    rep.finish()
}


// ---------------------------------------------------------------- whole replicas through the backends

use super::syncworld::{act_str, do_local, Act, World};

/// Run a history of local actions and syncs with real replicas against a real backend (every
/// sync opens its own handle, as every CLI invocation does), quiesce, and return the converged
/// tasks.
fn history_on_backend(kind: BackendKind, r: usize, acts: &[Act]) -> Result<crate::model::ops::Tasks, String> {
    use crate::world::proxy::Ctl;
    use crate::world::replicas::with_replica;
    let mut w = World::new(r);
    crate::util::block_on(async {
        let b = Backend::new(kind, 0).await;
        let handle_of = |i: usize| if Backend::max_handles(kind) == 1 { 0 } else { i % 2 };
        for a in acts {
            match a {
                Act::Sync { r: i, .. } => {
                    let mut h = b.open(handle_of(*i)).await;
                    with_replica(&mut w.reps[*i], Ctl::new(), async |rep| rep.sync(&mut h, true).await.map_err(|e| format!("replica-sync-failed: {}: {e:#}", act_str(a)))).await?;
                    w.obs[*i] = std::sync::Arc::new(crate::world::replicas::observe(&mut w.reps[*i]).await);
                }
                _ => {
                    do_local_async(&mut w, a).await?;
                }
            }
        }
        for round in 0..4 {
            for i in 0..r {
                let mut h = b.open(handle_of(i)).await;
                with_replica(&mut w.reps[i], Ctl::new(), async |rep| rep.sync(&mut h, true).await.map_err(|e| format!("replica-sync-failed: quiescing sync of replica {i}: {e:#}"))).await?;
            }
            // settled once a whole round (after the first) left everybody equal with nothing pending
            if round >= 1 {
                let mut obs = vec![];
                for i in 0..r {
                    obs.push(crate::world::replicas::observe(&mut w.reps[i]).await);
                }
                if obs.iter().all(|o| o.unsynced.is_empty() && o.tasks == obs[0].tasks && o.base == obs[0].base) {
                    break;
                }
            }
        }
        let mut all = vec![];
        for i in 0..r {
            all.push(crate::world::replicas::observe(&mut w.reps[i]).await);
        }
        for o in &all {
            if o.tasks != all[0].tasks {
                return Err(format!("replica-divergence: replicas synced through the {kind:?} backend hold {} and {}", crate::world::replicas::tasks_str(&all[0].tasks), crate::world::replicas::tasks_str(&o.tasks)));
            }
            if !o.unsynced.is_empty() {
                return Err("replica-pending: a replica still has unsynchronized operations after four rounds of syncs".into());
            }
        }
        Ok(all[0].tasks.clone())
    })
}

async fn do_local_async(w: &mut World, a: &Act) -> Result<(), String> {
    use crate::world::proxy::Ctl;
    use crate::world::replicas::with_replica;
    let r = a.replica();
    let obs = w.obs[r].clone();
    let Some(op) = super::syncworld::local_op(&obs.tasks, a) else { return Ok(()) };
    with_replica(&mut w.reps[r], Ctl::new(), async |rep| rep.commit_operations(vec![op]).await.map_err(|e| format!("commit failed: {e:#}"))).await?;
    w.obs[r] = std::sync::Arc::new(crate::world::replicas::observe(&mut w.reps[r]).await);
    Ok(())
}

/// The histories: every history of the C01 alphabet (2 replicas, small update set) of the given
/// depth that contains at least two syncs, deduplicated by the state they reach.
fn histories(depth: usize, max: usize) -> Vec<Vec<Act>> {
    use super::syncsys::{small_updates, SyncSys};
    use crate::explore::state::{explore, StateCfg, Sys};
    struct Collect {
        inner: SyncSys,
        out: std::sync::Mutex<Vec<Vec<Act>>>,
    }
    impl Sys for Collect {
        type State = World;
        type Action = Act;
        fn init(&self) -> World {
            self.inner.init()
        }
        fn actions(&self, s: &World, l: usize) -> Vec<Act> {
            self.inner.actions(s, l)
        }
        fn step(&self, s: &World, a: &Act) -> Result<World, String> {
            self.inner.step(s, a)
        }
        fn canon(&self, s: &World) -> u128 {
            self.inner.canon(s)
        }
        fn check(&self, _s: &World, t: &[Act]) -> Result<bool, String> {
            if t.iter().filter(|a| a.is_sync()).count() >= 2 && t.iter().any(|a| !a.is_sync() && a.replica() == 1) {
                self.out.lock().unwrap().push(t.to_vec());
            }
            Ok(false)
        }
    }
    let mut inner = SyncSys::new(2);
    inner.updates = small_updates();
    inner.c01 = false;
    let c = Collect { inner, out: Default::default() };
    let _ = explore(&c, &StateCfg { max_depth: depth, deadline: None, max_found: 1, first_depth: depth, tolerate: vec![] });
    let mut v = c.out.into_inner().unwrap();
    v.sort_by_key(|t| (std::cmp::Reverse(t.len()), format!("{t:?}")));
    // spread the selection over the list
    let step = (v.len() / max.max(1)).max(1);
    v.into_iter().step_by(step).take(max).collect()
}

fn replica_level(rep: &Report, tier: Tier) {
    let q = tier == Tier::Quick;
    let plan: Vec<(BackendKind, usize)> = vec![
        (BackendKind::Cloud, if q { 300 } else { 5000 }),
        (BackendKind::Local, if q { 150 } else { 2000 }),
        (BackendKind::Http, if q { 40 } else { 400 }),
        (BackendKind::GitLocal, if q { 3 } else { 40 }),
        (BackendKind::GitRemote, if q { 2 } else { 30 }),
    ];
    let only = std::env::var("TCMC_BACKEND").ok();
    for (kind, max) in plan {
        if only.as_ref().is_some_and(|o| format!("{kind:?}") != *o) {
            continue;
        }
        let hs = histories(if q { 6 } else { 7 }, max);
        let work = || -> Vec<(usize, Result<(), String>)> {
            hs.par_iter()
                .enumerate()
                .map(|(i, h)| {
                    if rep.over_budget() {
                        return (i, Ok(()));
                    }
                    let r = (|| {
                        let want = history_on_backend_reference(h)?;
                        let got = history_on_backend(kind, 2, h)?;
                        if got != want {
                            return Err(format!("replica-result: through the {kind:?} backend the replicas converge to {} but through the reference chain server to {}", crate::world::replicas::tasks_str(&got), crate::world::replicas::tasks_str(&want)));
                        }
                        Ok(())
                    })();
                    (i, r)
                })
                .collect()
        };
        let results = if matches!(kind, BackendKind::GitLocal | BackendKind::GitRemote) { rayon::ThreadPoolBuilder::new().num_threads(2).build().unwrap().install(work) } else { work() };
        for (i, r) in results {
            if let Err(e) = r {
                rep.violation(Violation::new(
                    format!("{}:{kind:?}:replicas", e.split(':').next().unwrap_or("")),
                    format!("{e} [history {:?}]", hs[i].iter().map(act_str).collect::<Vec<_>>()),
                    json!({"kind": "c08-history", "backend": kind, "history": hs[i].iter().map(|a| json!({"act": a})).collect::<Vec<_>>()}),
                ));
            }
        }
        rep.add("replica_histories", hs.len() as u64);
        rep.add("states", hs.len() as u64);
        rep.add("transitions", hs.iter().map(|h| h.len() as u64).sum::<u64>());
        rep.add("traces_validated_against_impl", hs.len() as u64);
        rep.set(&format!("replica_level_{kind:?}"), json!({"histories": hs.len()}));
        println!("[C08] {kind:?}: {} replica-level histories compared with the reference chain server ({:.1}s)", hs.len(), rep.elapsed());
    }
}

/// The same history against the harness chain server.
fn history_on_backend_reference(acts: &[Act]) -> Result<crate::model::ops::Tasks, String> {
    let mut w = World::new(2);
    for a in acts {
        match a {
            Act::Sync { r, .. } => {
                super::syncworld::do_sync(&mut w, *r, super::syncworld::Urg::None, true, None, None).result.map_err(|e| format!("reference: {e}"))?;
            }
            _ => {
                do_local(&mut w, a)?;
            }
        }
    }
    super::syncworld::quiesce(&w).map(|(t, _)| t)
}

pub fn replay(case: &serde_json::Value) -> Result<(), String> {
    let kind: BackendKind = serde_json::from_value(case["backend"].clone()).map_err(|e| e.to_string())?;
    let seq: Vec<Call> = serde_json::from_value(case["sequence"].clone()).map_err(|e| e.to_string())?;
    println!("backend {kind:?}: {seq:?}");
    if case["aged"].as_bool().unwrap_or(false) {
        std::env::set_var("GIT_COMMITTER_DATE", "2020-01-01T00:00:00Z");
        std::env::set_var("GIT_AUTHOR_DATE", "2020-01-01T00:00:00Z");
    }
    run_sequence(kind, case["handles"].as_u64().unwrap_or(1) as usize, &seq).map(|_| ())
}
