//! C05 – local commits are atomic and follow the documented operation model
//! (E-DIFF: batch vs one-at-a-time vs reference model; E-FAULT: error at every storage call).

use crate::model::ops::{self, Tasks};
use crate::util::{Opts, Report, Tier, Violation};
use crate::world::proxy::{Ctl, StorageFault};
use crate::world::replicas::{observe, op_str, tasks_str, tid, with_replica, Obs};
use crate::world::store::{Kind, Store};
use rayon::prelude::*;
use serde_json::json;
use std::sync::atomic::Ordering;
use taskchampion::Operation;

#[derive(Clone, Debug, PartialEq, Eq, serde::Serialize, serde::Deserialize)]
pub enum OpT {
    Create(u8),
    Delete(u8),
    Upd(u8, String, Option<String>),
    UndoPoint,
}

pub fn alphabet() -> Vec<OpT> {
    let s = |x: &str| Some(x.to_string());
    let mut v = vec![];
    for t in [1u8, 2] {
        v.push(OpT::Create(t));
        v.push(OpT::Upd(t, "p".into(), s("a")));
        v.push(OpT::Upd(t, "p".into(), None));
        v.push(OpT::Delete(t));
    }
    v.push(OpT::Upd(1, "status".into(), s("pending")));
    v.push(OpT::UndoPoint);
    v
}

/// The concrete operation for a template, with old value / old task taken from `tasks` (what a
/// replica would record), whether or not the operation is valid there.
pub fn concrete(tasks: &Tasks, t: &OpT) -> Operation {
    match t {
        OpT::Create(n) => Operation::Create { uuid: tid(*n) },
        OpT::Delete(n) => Operation::Delete {
            uuid: tid(*n),
            old_task: tasks.get(&tid(*n)).cloned().unwrap_or_default().into_iter().collect(),
        },
        OpT::Upd(n, p, v) => Operation::Update {
            uuid: tid(*n),
            property: p.clone(),
            old_value: tasks.get(&tid(*n)).and_then(|m| m.get(p)).cloned(),
            value: v.clone(),
            timestamp: super::syncworld::ts(1),
        },
        OpT::UndoPoint => Operation::UndoPoint,
    }
}

/// Concretise a batch left to right against the evolving model state.
pub fn concretise(tasks: &Tasks, batch: &[OpT]) -> (Vec<Operation>, Tasks) {
    let mut t = tasks.clone();
    let mut out = vec![];
    for o in batch {
        let c = concrete(&t, o);
        if let Some(m) = ops::to_sync(&c) {
            ops::apply(&mut t, &m);
        }
        out.push(c);
    }
    (out, t)
}

/// Operation list for messages (elided in the middle when long).
fn ops_str(o: &[Operation]) -> String {
    if o.len() <= 12 {
        o.iter().map(op_str).collect::<Vec<_>>().join("; ")
    } else {
        format!("{}; ... {} more ...; {}", o[..4].iter().map(op_str).collect::<Vec<_>>().join("; "), o.len() - 6, o[o.len() - 2..].iter().map(op_str).collect::<Vec<_>>().join("; "))
    }
}

pub fn commit(store: &mut Store, ops_: Vec<Operation>, ctl: std::sync::Arc<Ctl>) -> Result<(), String> {
    crate::util::block_on(with_replica(store, ctl, async |r| {
        r.commit_operations(ops_).await.map_err(|e| format!("{e:#}"))
    }))
}

pub fn obs(store: &mut Store) -> Obs {
    crate::util::block_on(observe(store))
}

#[derive(Clone)]
pub struct Prior {
    pub name: String,
    pub store: Store,
    /// task state at the replica's base version (replay of what was synced)
    pub base_tasks: Tasks,
    pub obs: Obs,
}

/// Prior states: every combination of T1, T2 in {absent, {}, {p=a}} (+ T1 pending), each once
/// with all operations still unsynchronized and once after a sync (base state = tasks).
pub fn priors(kind: Kind, small: bool) -> Vec<Prior> {
    let shapes: Vec<Vec<OpT>> = {
        let s = |x: &str| Some(x.to_string());
        let one = |t: u8| -> Vec<Vec<OpT>> {
            vec![vec![], vec![OpT::Create(t)], vec![OpT::Create(t), OpT::Upd(t, "p".into(), s("a"))]]
        };
        let mut v = vec![];
        for a in one(1) {
            for b in one(2) {
                let mut x = a.clone();
                x.extend(b);
                v.push(x);
            }
        }
        v.push(vec![OpT::Create(1), OpT::Upd(1, "status".into(), s("pending")), OpT::Upd(1, "p".into(), s("a"))]);
        v
    };
    let shapes: Vec<Vec<OpT>> = if small { shapes.into_iter().step_by(3).collect() } else { shapes };
    let mut out = vec![];
    for sh in shapes {
        for synced in [false, true] {
            let mut st = Store::fresh(kind);
            let (ops_, t) = concretise(&Tasks::new(), &sh);
            if !ops_.is_empty() {
                commit(&mut st, ops_, Ctl::new()).expect("prior commit");
            }
            let mut base_tasks = Tasks::new();
            if synced {
                // mark everything synced through a real sync against a harness server
                let chain = std::sync::Arc::new(std::sync::Mutex::new(crate::world::mserver::ChainState::default()));
                let mut server = crate::world::mserver::MServer::new(chain, 0).boxed();
                crate::util::block_on(with_replica(&mut st, Ctl::new(), async |r| r.sync(&mut server, false).await)).expect("prior sync");
                base_tasks = t.clone();
            }
            let o = obs(&mut st);
            assert_eq!(o.tasks, t, "prior state construction");
            out.push(Prior {
                name: format!("{}{}", sh.iter().map(|o| format!("{o:?}")).collect::<Vec<_>>().join(","), if synced { " [synced]" } else { "" }),
                store: st,
                base_tasks,
                obs: o,
            });
        }
    }
    out
}

pub fn batches(max_len: usize) -> Vec<Vec<OpT>> {
    batches_over(alphabet(), max_len)
}

/// The operations of the alphabet that touch task 1 only: longer batches on one task (update,
/// delete, re-create, update again ... inside one commit) stay affordable on SQLite.
pub fn single_task_alphabet() -> Vec<OpT> {
    alphabet().into_iter().filter(|o| matches!(o, OpT::Create(1) | OpT::Delete(1) | OpT::Upd(1, _, _))).collect()
}

pub fn batches_over(a: Vec<OpT>, max_len: usize) -> Vec<Vec<OpT>> {
    let mut out: Vec<Vec<OpT>> = vec![];
    let mut level: Vec<Vec<OpT>> = vec![vec![]];
    for _ in 0..max_len {
        let mut next = vec![];
        for b in &level {
            for o in &a {
                let mut x = b.clone();
                x.push(o.clone());
                next.push(x);
            }
        }
        out.extend(next.iter().cloned());
        level = next;
    }
    out
}

fn obs_eq_modulo_ws_order(a: &Obs, b: &Obs) -> bool {
    a == b
}

/// Check one (prior, batch) case. Returns (non-trivial, storage calls, fault runs).
pub fn check_case(p: &Prior, batch: &[OpT], faults: bool) -> Result<(bool, usize, usize), String> {
    check_case_with(p, batch, &|_, _| faults)
}

/// A batch of `n` operations: create T1 (when absent), `n - 2` alternating updates of T1.p, and a
/// final update of T2 (valid or not, depending on the prior).
pub fn large_batch(n: usize) -> Vec<OpT> {
    let mut v = vec![OpT::Create(1)];
    for i in 0..n.saturating_sub(2) {
        v.push(OpT::Upd(1, "p".into(), if i % 2 == 0 { Some("a".into()) } else { None }));
    }
    v.push(OpT::Upd(2, "p".into(), Some("a".into())));
    v
}

/// [`check_case`] with the injected error restricted to the storage calls (index, label) that
/// `fault_at` selects.
pub fn check_case_with(p: &Prior, batch: &[OpT], fault_at: &dyn Fn(usize, &str) -> bool) -> Result<(bool, usize, usize), String> {
    let (ops_, want_tasks) = concretise(&p.obs.tasks, batch);
    // (a) + (c) batch on the real replica, recording the storage calls
    let mut st = p.store.clone();
    let ctl = Ctl::new();
    ctl.start_recording();
    commit(&mut st, ops_.clone(), ctl.clone()).map_err(|e| format!("commit-failed: {e}"))?;
    let calls = ctl.take_log();
    let after = obs(&mut st);
    if after.tasks != want_tasks {
        return Err(format!(
            "batch-vs-model: committing [{}] on {} gives {} but applying the operations one at a time under the documented rules gives {}",
            ops_str(&ops_),
            tasks_str(&p.obs.tasks),
            tasks_str(&after.tasks),
            tasks_str(&want_tasks)
        ));
    }
    let mut want_unsynced = p.obs.unsynced.clone();
    want_unsynced.extend(ops_.iter().cloned());
    if after.unsynced != want_unsynced {
        return Err(format!(
            "oplog: after committing [{}] the unsynchronized list is [{}] but should be the old list followed by the batch [{}]",
            ops_str(&ops_),
            after.unsynced.iter().map(op_str).collect::<Vec<_>>().join("; "),
            want_unsynced.iter().map(op_str).collect::<Vec<_>>().join("; ")
        ));
    }
    if after.base != p.obs.base {
        return Err("base-version: a local commit changed the base version".into());
    }
    // (d) tasks == base state + unsynchronized operations
    let mut t = p.base_tasks.clone();
    for o in &after.unsynced {
        if let Some(m) = ops::to_sync(o) {
            ops::apply(&mut t, &m);
        }
    }
    if t != after.tasks {
        return Err(format!(
            "replica-invariant: base state plus unsynchronized operations gives {} but the replica holds {}",
            tasks_str(&t),
            tasks_str(&after.tasks)
        ));
    }
    // (b) one at a time on a clone
    if ops_.len() > 1 {
        let mut st1 = p.store.clone();
        for o in &ops_ {
            commit(&mut st1, vec![o.clone()], Ctl::new()).map_err(|e| format!("commit-failed: single {e}"))?;
        }
        let single = obs(&mut st1);
        if single.tasks != after.tasks || single.unsynced != after.unsynced {
            return Err(format!(
                "batch-vs-single: committing [{}] as one batch gives {} but one at a time gives {}",
                ops_str(&ops_),
                tasks_str(&after.tasks),
                tasks_str(&single.tasks)
            ));
        }
    }
    // (e) atomicity: an error at any storage call leaves everything unchanged
    let mut fault_runs = 0;
    {
        for k in 0..calls.len() {
            if !fault_at(k, &calls[k]) {
                continue;
            }
            let mut st2 = p.store.clone();
            let ctl = Ctl::new();
            ctl.arm(k, StorageFault::Error);
            let r = commit(&mut st2, ops_.clone(), ctl.clone());
            fault_runs += 1;
            if r.is_ok() {
                if ctl.calls.load(Ordering::SeqCst) > k {
                    return Err(format!("error-swallowed: storage call {k} ({}) failed but commit_operations reported success", calls[k]));
                }
                continue;
            }
            st2.reopen();
            let o2 = obs(&mut st2);
            if !obs_eq_modulo_ws_order(&o2, &p.obs) {
                return Err(format!(
                    "not-atomic: commit of [{}] failed at storage call {k} ({}) but the replica changed from {} to {}",
                    ops_str(&ops_),
                    calls[k],
                    p.obs.canon(),
                    o2.canon()
                ));
            }
        }
    }
    let invalid = want_tasks != {
        // non-trivial: the batch contains an operation that is invalid where it is applied, or
        // touches one task at least three times
        let mut t = p.obs.tasks.clone();
        let mut any_invalid = false;
        for o in &ops_ {
            match o {
                Operation::Create { uuid } => any_invalid |= t.contains_key(uuid),
                Operation::Delete { uuid, .. } | Operation::Update { uuid, .. } => any_invalid |= !t.contains_key(uuid),
                _ => {}
            }
            if let Some(m) = ops::to_sync(o) {
                ops::apply(&mut t, &m);
            }
        }
        if any_invalid {
            Tasks::from([(uuid::Uuid::nil(), Default::default())])
        } else {
            want_tasks.clone()
        }
    };
    Ok((invalid, calls.len(), fault_runs))
}

fn run_kind(rep: &Report, kind: Kind, max_len: usize, small_priors: bool, faults_upto: usize) {
    run_kind_over(rep, kind, max_len, small_priors, faults_upto, false)
}

fn run_kind_over(rep: &Report, kind: Kind, max_len: usize, small_priors: bool, faults_upto: usize, single_task: bool) {
    let ps = priors(kind, small_priors);
    let bs = if single_task { batches_over(single_task_alphabet(), max_len).into_iter().filter(|b| b.len() == max_len).collect() } else { batches(max_len) };
    let cases: Vec<(usize, usize)> = (0..ps.len()).flat_map(|i| (0..bs.len()).map(move |j| (i, j))).collect();
    let capped = std::sync::atomic::AtomicBool::new(false);
    let results: Vec<_> = cases
        .par_iter()
        .map(|&(i, j)| {
            if rep.over_budget() {
                capped.store(true, Ordering::Relaxed);
                return (i, j, Ok((false, 0, 0)));
            }
            (i, j, check_case(&ps[i], &bs[j], bs[j].len() <= faults_upto))
        })
        .collect();
    let mut nontrivial = 0u64;
    let mut fault_runs = 0u64;
    for (i, j, r) in results {
        match r {
            Ok((nt, _calls, fr)) => {
                nontrivial += nt as u64;
                fault_runs += fr as u64;
            }
            Err(e) => {
                let note = crate::util::confirm_or_exit("C05", &e, || check_case(&ps[i], &bs[j], bs[j].len() <= faults_upto).err());
                let e = format!("{e}{note}");
                rep.violation(Violation::new(
                    format!("{}:{kind:?}", e.split(':').next().unwrap_or("")),
                    e.clone(),
                    json!({"kind": "c05-case", "storage": kind, "prior": ps[i].name, "prior_index": i, "small_priors": small_priors, "batch": bs[j], "observed": e}),
                ));
            }
        }
    }
    if capped.load(Ordering::Relaxed) {
        rep.set("exhaustive", false);
    }
    rep.add("evaluations", cases.len() as u64);
    rep.add("fault_injection_runs", fault_runs);
    rep.add("distinct_nontrivial", nontrivial);
    rep.add("states", ps.len() as u64);
    rep.add("transitions", cases.len() as u64 + fault_runs);
    rep.add("traces_validated_against_impl", cases.len() as u64);
    rep.set(&format!("storage_{kind:?}{}", if single_task { format!("_single_task_len{max_len}") } else { String::new() }), json!({"prior_states": ps.len(), "batches": bs.len(), "max_batch_len": max_len, "cases": cases.len(), "fault_runs": fault_runs, "with_invalid_operation": nontrivial}));
    rep.sample(json!({"storage": format!("{kind:?}"), "prior": ps[ps.len() / 2].name, "batch": bs[bs.len() / 2]}));
    println!("[C05] {kind:?}: {} priors x {} batches (len<={max_len}) = {} cases, {fault_runs} fault runs, {nontrivial} with an invalid operation ({:.1}s)", ps.len(), bs.len(), cases.len(), rep.elapsed());
}

pub fn run(opts: &Opts) -> i32 {
    let rep = Report::new("C05", "model_checking", opts);
    rep.set("exhaustive", true);
    rep.set("rule", "case = prior replica state (T1,T2 each absent / empty / with a property, unsynced or synced) x every batch over {Create, Update p=a, Update p=absent, Delete} x {T1,T2} + status=pending + UndoPoint up to the length bound, valid or not (SQLite: all batches up to length 2-3, plus every batch of exactly 4 (thorough 5) operations on one task); each executed through the real Replica::commit_operations on the in-memory and the SQLite storage; oracles: reference model one-at-a-time, batch-vs-single differential, operation log = old log + batch, tasks = base + pending, and for every storage call index an injected error must leave the whole observable state unchanged; plus batches of 1200 (thorough 5000) operations with an injected error at every storage call (SQLite: every transaction boundary + every 97th call); non-trivial = batches containing an operation that is invalid where it is applied");
    let q = opts.tier == Tier::Quick;
    run_kind(&rep, Kind::Mem, if q { 4 } else { 5 }, false, if q { 3 } else { 4 });
    // SQLite, cheapest parts first (the part with an injected error at every storage call re-opens a
    // database per run and is the one a busy machine cuts short):
    // longer batches on ONE task (update, delete, re-create, update again inside one commit): all
    // batches of exactly 4 (thorough: and 5) operations over the five task-1 operations
    run_kind_over(&rep, Kind::Sqlite, 4, true, 0, true);
    if !q {
        run_kind_over(&rep, Kind::Sqlite, 5, true, 0, true);
    }
    if q {
        // length-3 batches on a few SQLite priors
        run_kind(&rep, Kind::Sqlite, 3, true, 0);
    }
    run_kind(&rep, Kind::Sqlite, if q { 2 } else { 3 }, q, 2);
    // very large batches: still one atomic commit whatever the size (in memory: an error at every
    // storage call; SQLite: at every transaction begin/commit call and every 97th other call)
    let sizes: &[usize] = if q { &[1200] } else { &[1200, 5000] };
    for &n in sizes {
        for kind in [Kind::Mem, Kind::Sqlite] {
            let ps = priors(kind, true);
            let batch = large_batch(n);
            let results: Vec<_> = ps
                .par_iter()
                .enumerate()
                .map(|(i, p)| {
                    let filt = move |k: usize, l: &str| match kind {
                        Kind::Mem => n <= 1200 || k % 7 == 0 || l == "txn" || l == "commit",
                        _ => k % 97 == 0 || l == "txn" || l == "commit",
                    };
                    (i, check_case_with(p, &batch, &filt))
                })
                .collect();
            let mut fr_total = 0u64;
            for (i, r) in results {
                match r {
                    Ok((_, _, fr)) => fr_total += fr as u64,
                    Err(e) => rep.violation(Violation::new(
                        format!("{}:{kind:?}:large", e.split(':').next().unwrap_or("")),
                        e.clone(),
                        json!({"kind": "c05-large", "storage": kind, "prior_index": i, "n": n, "observed": e}),
                    )),
                }
            }
            rep.add("fault_injection_runs", fr_total);
            rep.add("evaluations", ps.len() as u64);
            rep.set(&format!("large_batch_{n}_{kind:?}"), json!({"prior_states": ps.len(), "operations": n, "fault_runs": fr_total}));
            println!("[C05] {kind:?}: batch of {n} operations x {} priors, {fr_total} fault runs ({:.1}s)", ps.len(), rep.elapsed());
        }
    }
    rep.finish()
}

pub fn replay(case: &serde_json::Value) -> Result<(), String> {
    let kind: Kind = serde_json::from_value(case["storage"].clone()).map_err(|e| e.to_string())?;
    if case["kind"] == "c05-large" {
        let ps = priors(kind, true);
        let i = case["prior_index"].as_u64().unwrap_or(0) as usize;
        let n = case["n"].as_u64().unwrap_or(1200) as usize;
        println!("storage {kind:?}; prior state: {}; batch of {n} operations, error at every transaction boundary and every 7th call", ps[i].name);
        return check_case_with(&ps[i], &large_batch(n), &|k, l| k % 7 == 0 || l == "txn" || l == "commit").map(|_| ());
    }
    let small = case["small_priors"].as_bool().unwrap_or(false);
    let i = case["prior_index"].as_u64().unwrap_or(0) as usize;
    let batch: Vec<OpT> = serde_json::from_value(case["batch"].clone()).map_err(|e| e.to_string())?;
    let ps = priors(kind, small);
    println!("storage {kind:?}; prior state: {} = {}", ps[i].name, ps[i].obs.canon());
    println!("batch: {batch:?}");
    check_case(&ps[i], &batch, true).map(|_| ())
}
