//! C03 – no lost updates; documented conflict winners; independence of sync order.
//!
//! Families of scenarios, each enumerated exhaustively: every replica makes a (valid) sequence
//! of local operations concurrently on a common synced base; the replicas then sync in every
//! possible order; everything is quiesced; the converged state is compared (a) across sync
//! orders and (b) with the winners the documentation prescribes.

use super::syncworld::*;
use crate::model::ops::Tasks;
use crate::util::{Opts, Report, Tier, Violation};
use crate::world::replicas::{tasks_str, tid};
use rayon::prelude::*;
use serde_json::json;
use std::collections::BTreeMap;

#[derive(Clone, Copy, Debug, PartialEq, Eq, serde::Serialize, serde::Deserialize)]
pub enum Base {
    /// no tasks
    Empty,
    /// T1{p=base} and T2{} exist and are synced everywhere
    Populated,
}

/// A local operation template (replica filled in later).
#[derive(Clone, Debug, PartialEq, Eq, serde::Serialize, serde::Deserialize)]
pub enum LOp {
    Create(u8),
    Delete(u8),
    Upd(u8, String, Option<String>, i64),
}

impl LOp {
    fn act(&self, r: usize) -> Act {
        match self {
            LOp::Create(t) => Act::Create { r, t: *t },
            LOp::Delete(t) => Act::Delete { r, t: *t },
            LOp::Upd(t, p, v, ts) => Act::Update {
                r,
                t: *t,
                p: p.clone(),
                v: v.clone(),
                ts: *ts,
            },
        }
    }
    fn task(&self) -> u8 {
        match self {
            LOp::Create(t) | LOp::Delete(t) | LOp::Upd(t, ..) => *t,
        }
    }
}

fn alphabet() -> Vec<LOp> {
    let s = |x: &str| Some(x.to_string());
    vec![
        LOp::Upd(1, "p".into(), s("a"), 1),
        LOp::Upd(1, "p".into(), s("b"), 1),
        LOp::Upd(1, "p".into(), s("a"), 2),
        LOp::Upd(1, "p".into(), s("b"), 2),
        LOp::Upd(1, "p".into(), None, 1),
        LOp::Upd(1, "p".into(), None, 2),
        LOp::Upd(1, "p".into(), s(""), 1),
        LOp::Upd(1, "p".into(), s("c"), 3),
        LOp::Upd(1, "q".into(), s("a"), 1),
        LOp::Upd(2, "p".into(), s("a"), 1),
        LOp::Delete(1),
        LOp::Create(1),
        LOp::Create(3),
    ]
}

fn base_world(base: Base, r: usize) -> World {
    let mut w = World::new(r);
    if base == Base::Populated {
        for a in [
            Act::Create { r: 0, t: 1 },
            Act::Update { r: 0, t: 1, p: "p".into(), v: Some("base".into()), ts: 0 },
            Act::Create { r: 0, t: 2 },
        ] {
            do_local(&mut w, &a).unwrap();
        }
        let (_, q) = quiesce(&w).expect("base world quiesces");
        w = q;
    }
    w
}

/// All valid sequences of length 1..=k for one replica starting from the base state.
fn sequences(base: Base, k: usize) -> Vec<Vec<LOp>> {
    let w = base_world(base, 1);
    let mut out = vec![];
    fn rec(w: &World, k: usize, cur: &mut Vec<LOp>, out: &mut Vec<Vec<LOp>>) {
        if !cur.is_empty() {
            out.push(cur.clone());
        }
        if cur.len() == k {
            return;
        }
        for op in alphabet() {
            let mut w2 = w.clone();
            if do_local(&mut w2, &op.act(0)).unwrap() {
                cur.push(op);
                rec(&w2, k, cur, out);
                cur.pop();
            }
        }
    }
    rec(&w, k, &mut vec![], &mut out);
    out
}

#[derive(Clone, Debug, serde::Serialize, serde::Deserialize)]
pub struct Scenario {
    pub base: Base,
    pub seqs: Vec<Vec<LOp>>,
    /// also run the replicas' first syncs overlapping in time (all interleavings)
    #[serde(default)]
    pub overlap: bool,
}

fn permutations(n: usize) -> Vec<Vec<usize>> {
    let mut out = vec![];
    fn rec(v: &mut Vec<usize>, k: usize, out: &mut Vec<Vec<usize>>) {
        if k == v.len() {
            out.push(v.clone());
            return;
        }
        for i in k..v.len() {
            v.swap(k, i);
            rec(v, k + 1, out);
            v.swap(k, i);
        }
    }
    rec(&mut (0..n).collect(), 0, &mut out);
    out
}

/// Run a scenario with one sync order; returns the converged tasks.
fn run_order(sc: &Scenario, order: &[usize]) -> Result<Tasks, String> {
    let r = sc.seqs.len();
    let mut w = base_world(sc.base, r);
    for (i, seq) in sc.seqs.iter().enumerate() {
        for op in seq {
            if !do_local(&mut w, &op.act(i))? {
                return Err(format!("harness: operation {op:?} not valid on replica {i}"));
            }
        }
    }
    for &i in order {
        let out = do_sync(&mut w, i, Urg::None, false, None, None);
        out.result.map_err(|e| format!("sync-failed: replica {i}: {e}"))?;
    }
    let (t, _) = quiesce(&w)?;
    Ok(t)
}

fn base_tasks(base: Base) -> Tasks {
    let w = base_world(base, 1);
    w.obs[0].tasks.clone()
}

/// The obligations the documentation states for a scenario, checked against the converged state.
fn check_documented(sc: &Scenario, fin: &Tasks) -> Result<(), String> {
    let base = base_tasks(sc.base);
    let r = sc.seqs.len();
    // per task: who deletes / creates it, per (task,prop): each replica's updates
    let mut deleters: BTreeMap<u8, Vec<usize>> = BTreeMap::new();
    let mut creators: BTreeMap<u8, Vec<usize>> = BTreeMap::new();
    let mut updates: BTreeMap<(u8, String), Vec<(usize, Option<String>, i64)>> = BTreeMap::new();
    for (i, seq) in sc.seqs.iter().enumerate() {
        for op in seq {
            match op {
                LOp::Delete(t) => deleters.entry(*t).or_default().push(i),
                LOp::Create(t) => creators.entry(*t).or_default().push(i),
                LOp::Upd(t, p, v, ts) => updates.entry((*t, p.clone())).or_default().push((i, v.clone(), *ts)),
            }
        }
    }
    let tasks_touched: std::collections::BTreeSet<u8> = sc.seqs.iter().flatten().map(|o| o.task()).collect();
    for t in tasks_touched {
        let u = tid(t);
        let dels = deleters.get(&t).cloned().unwrap_or_default();
        let cres = creators.get(&t).cloned().unwrap_or_default();
        let existed = base.contains_key(&u);
        // deletion wins over concurrent updates (no re-creation anywhere)
        if existed && !dels.is_empty() && cres.is_empty() {
            if fin.contains_key(&u) {
                return Err(format!("delete-loses: task T{t} was deleted by replica(s) {dels:?} and never re-created, but it exists after sync"));
            }
            continue;
        }
        // concurrent creations are kept
        if !existed && !cres.is_empty() && dels.is_empty() && !fin.contains_key(&u) {
            return Err(format!("create-lost: task T{t} was created by replica(s) {cres:?} and never deleted, but it is absent after sync"));
        }
        // untouched existence
        if existed && dels.is_empty() && !fin.contains_key(&u) {
            return Err(format!("task-vanished: nobody deleted T{t} but it is absent after sync"));
        }
        if !dels.is_empty() || (!existed && cres.is_empty()) {
            // delete-and-recreate mixes, or updates of a task that never existed: the prose
            // is silent; only convergence and order independence are asserted (by the caller)
            continue;
        }
        // property-level obligations for a task that exists throughout
        let props: Vec<&(u8, String)> = updates.keys().filter(|k| k.0 == t).collect();
        for key in props {
            let ups = &updates[key];
            let got = fin.get(&u).and_then(|m| m.get(&key.1)).cloned();
            let mut per_replica: BTreeMap<usize, Vec<(Option<String>, i64)>> = BTreeMap::new();
            for (i, v, ts) in ups {
                per_replica.entry(*i).or_default().push((v.clone(), *ts));
            }
            if per_replica.len() == 1 {
                // only one replica touched this property: its last value must survive
                let (_, seq) = per_replica.iter().next().unwrap();
                let want = seq.last().unwrap().0.clone();
                if got != want {
                    return Err(format!(
                        "lost-update: only replica {} changed T{t}.{} (last value {:?}) but after sync it is {:?}",
                        per_replica.keys().next().unwrap(),
                        key.1,
                        want,
                        got
                    ));
                }
            } else if per_replica.values().all(|s| s.len() == 1) {
                // one update per replica: the documented pairwise rule applies directly
                let maxts = ups.iter().map(|u| u.2).max().unwrap();
                let winners: std::collections::BTreeSet<Option<String>> =
                    ups.iter().filter(|u| u.2 == maxts).map(|u| u.1.clone()).collect();
                if !winners.contains(&got) {
                    return Err(format!(
                        "wrong-winner: concurrent updates of T{t}.{}: {:?}; the latest timestamp is {maxts} with value(s) {:?} but after sync the value is {:?}",
                        key.1, ups, winners, got
                    ));
                }
            } else {
                // several updates by one replica: the result must at least be one of the written values
                let any: std::collections::BTreeSet<Option<String>> = ups.iter().map(|u| u.1.clone()).collect();
                if !any.contains(&got) {
                    return Err(format!("invented-value: T{t}.{} is {:?} which nobody wrote ({:?})", key.1, got, ups));
                }
            }
        }
        // properties nobody touched keep their base value
        if let (Some(b), Some(f)) = (base.get(&u), fin.get(&u)) {
            for (k, v) in b {
                if !updates.contains_key(&(t, k.clone())) && f.get(k) != Some(v) {
                    return Err(format!("collateral: nobody changed T{t}.{k} but it went from {v:?} to {:?}", f.get(k)));
                }
            }
        }
    }
    let _ = r;
    Ok(())
}

pub fn check_scenario(sc: &Scenario) -> Result<(bool, u64), (String, String)> {
    let r = sc.seqs.len();
    let mut first: Option<(Vec<usize>, Tasks)> = None;
    let mut runs = 0;
    for order in permutations(r) {
        runs += 1;
        let fin = run_order(sc, &order).map_err(|e| (e.split(':').next().unwrap_or("").to_string(), format!("{e} [sync order {order:?}]")))?;
        check_documented(sc, &fin).map_err(|e| (e.split(':').next().unwrap_or("").to_string(), format!("{e} [sync order {order:?}]")))?;
        match &first {
            None => first = Some((order, fin)),
            Some((o0, f0)) => {
                if *f0 != fin {
                    return Err((
                        "order-dependence".into(),
                        format!(
                            "order-dependence: syncing in order {o0:?} converges to {} but order {order:?} converges to {}",
                            tasks_str(f0),
                            tasks_str(&fin)
                        ),
                    ));
                }
            }
        }
    }
    // the replicas' first syncs overlapping in time: every interleaving of their server requests
    // must converge to the same state as the sequential orders (pairs; triples preemption bound 2)
    if sc.overlap {
        let mut w = base_world(sc.base, r);
        for (i, seq) in sc.seqs.iter().enumerate() {
            for op in seq {
                do_local(&mut w, &op.act(i)).map_err(|e| ("harness".to_string(), e))?;
            }
        }
        let race = super::c02::Race { world: w, racers: (0..r).collect(), urg: Urg::None, snapshots_only: false, must_be_absent: vec![], must_be_present: vec![], expect_tasks: first.as_ref().map(|f| f.1.clone()) };
        let cfg = crate::explore::sched::ExploreCfg { bound: if r >= 3 { 2 } else { usize::MAX }, max_schedules: 100_000, deadline: None, seen: Some(Default::default()) };
        let (st, fails) = crate::explore::sched::explore(&race, &cfg);
        runs += st.schedules;
        if let Some(f) = fails.into_iter().next() {
            let sched: Vec<String> = f.trace.iter().map(|(c, l)| format!("R{}:{l}", c.task)).collect();
            return Err((f.what.split(':').next().unwrap_or("").to_string(), format!("{} [overlapping syncs, schedule {sched:?}]", f.what)));
        }
    }
    // non-trivial: at least two replicas touched the same task
    let mut touched: BTreeMap<u8, std::collections::BTreeSet<usize>> = BTreeMap::new();
    for (i, s) in sc.seqs.iter().enumerate() {
        for o in s {
            touched.entry(o.task()).or_default().insert(i);
        }
    }
    Ok((touched.values().any(|s| s.len() >= 2), runs))
}

/// Causal family: A changes, everybody syncs, B overrides with an earlier/equal/later timestamp.
fn causal(rep: &Report) {
    let s = |x: &str| Some(x.to_string());
    let firsts = vec![
        LOp::Upd(1, "p".into(), s("a"), 2),
        LOp::Upd(1, "p".into(), None, 2),
        LOp::Delete(1),
        LOp::Upd(1, "q".into(), s("a"), 2),
    ];
    let seconds = vec![
        LOp::Upd(1, "p".into(), s("b"), 1),
        LOp::Upd(1, "p".into(), s("b"), 2),
        LOp::Upd(1, "p".into(), s("b"), 3),
        LOp::Upd(1, "p".into(), None, 1),
        LOp::Create(1),
        LOp::Delete(1),
    ];
    for r in [2usize, 3] {
        for f in &firsts {
            for g in &seconds {
                let mut w = base_world(Base::Populated, r);
                if !do_local(&mut w, &f.act(0)).unwrap() {
                    continue;
                }
                let Ok((_, w1)) = quiesce(&w) else { continue };
                let mut w = w1;
                let before = w.obs[1].tasks.clone();
                if !do_local(&mut w, &g.act(1)).unwrap() {
                    continue;
                }
                let after_local = w.obs[1].tasks.clone();
                rep.add("evaluations", 1);
                rep.add("causal_scenarios", 1);
                let res = quiesce(&w).and_then(|(fin, _)| {
                    if fin != after_local {
                        Err(format!(
                            "causal-override: replica 1 saw {} and then made {g:?} (its state became {}), but after sync the state is {}",
                            tasks_str(&before),
                            tasks_str(&after_local),
                            tasks_str(&fin)
                        ))
                    } else {
                        Ok(())
                    }
                });
                if let Err(e) = res {
                    rep.violation(Violation::new(
                        format!("{}:causal", e.split(':').next().unwrap_or("")),
                        e,
                        json!({"kind": "c03-causal", "replicas": r, "first": f, "second": g}),
                    ));
                }
            }
        }
    }
}

fn run_family(rep: &Report, name: &str, scenarios: Vec<Scenario>) {
    let deadline_hit = std::sync::atomic::AtomicBool::new(false);
    let results: Vec<(usize, Result<(bool, u64), (String, String)>)> = scenarios
        .par_iter()
        .enumerate()
        .map(|(i, sc)| {
            if rep.over_budget() {
                deadline_hit.store(true, std::sync::atomic::Ordering::Relaxed);
                return (i, Ok((false, 0)));
            }
            (i, check_scenario(sc))
        })
        .collect();
    let mut nontrivial = 0u64;
    let mut runs = 0u64;
    for (i, r) in results {
        match r {
            Ok((nt, n)) => {
                runs += n;
                if nt && n > 0 {
                    nontrivial += 1;
                }
            }
            Err((class, what)) => {
                // replay twice
                let note = crate::util::confirm_or_exit("C03", &what, || check_scenario(&scenarios[i]).err().map(|e| e.1));
                let what = format!("{what}{note}");
                rep.violation(Violation::new(
                    format!("{class}:{name}"),
                    what,
                    json!({"kind": "c03-scenario", "family": name, "scenario": scenarios[i]}),
                ));
            }
        }
    }
    if deadline_hit.load(std::sync::atomic::Ordering::Relaxed) {
        rep.set("exhaustive", false);
        rep.set(&format!("family_{name}_capped"), true);
    }
    rep.add("evaluations", runs);
    rep.add("states", scenarios.len() as u64);
    rep.add("transitions", runs);
    rep.add("traces_validated_against_impl", runs);
    rep.add("scenarios", scenarios.len() as u64);
    rep.add("distinct_nontrivial", nontrivial);
    rep.set(&format!("family_{name}"), json!({"scenarios": scenarios.len(), "executions": runs, "conflicting": nontrivial}));
    println!("[C03] family {name}: {} scenarios, {runs} executions, {nontrivial} with a real conflict ({:.1}s)", scenarios.len(), rep.elapsed());
    if let Some(s) = scenarios.iter().find(|s| s.seqs.iter().all(|q| q.len() >= 1) && s.seqs[0] != s.seqs[1]) {
        rep.sample(json!({"family": name, "scenario": s}));
    }
}

pub fn run(opts: &Opts) -> i32 {
    let rep = Report::new("C03", "model_checking", opts);
    rep.set("exhaustive", true);
    rep.set("rule", "scenario = common synced base (empty, or T1{p=base},T2{}) x one valid local operation sequence per replica (alphabet: updates of T1.p to a/b/absent at t=1,2, T1.q, T2.p, delete T1, create T1/T3) x EVERY order in which the replicas first sync, and (pairs; thorough also triples of single operations) their first syncs overlapping in time under every interleaving of their server requests; all executed on real replicas; oracle = documented winners (latest timestamp; delete beats update; creates kept; untouched properties kept; sole writer survives) + identical result for every sync order; non-trivial = scenarios in which at least two replicas touched the same task");
    rep.assume("where the documentation is silent (delete-and-recreate against concurrent updates; several updates of one property by one replica) only convergence, order independence and 'no invented value' are asserted");
    let q = opts.tier == Tier::Quick;
    let one = |b| sequences(b, 1);
    let two = |b| sequences(b, 2);
    // F1: pairs of single operations, both bases
    let mut f1 = vec![];
    for b in [Base::Empty, Base::Populated] {
        let s = one(b);
        for x in &s {
            for y in &s {
                f1.push(Scenario { base: b, seqs: vec![x.clone(), y.clone()], overlap: true });
            }
        }
    }
    run_family(&rep, "F1-pairs-of-single-ops", f1);
    // F3: triples of single operations, all 6 orders
    let mut f3 = vec![];
    for b in [Base::Empty, Base::Populated] {
        let s = one(b);
        for x in &s {
            for y in &s {
                for z in &s {
                    f3.push(Scenario { base: b, seqs: vec![x.clone(), y.clone(), z.clone()], overlap: !q });
                }
            }
        }
    }
    run_family(&rep, "F3-triples-of-single-ops", f3);
    // F2: pairs of sequences of length <= 2 (thorough: 3)
    let mut f2 = vec![];
    for b in [Base::Empty, Base::Populated] {
        let s = if q { two(b) } else { sequences(b, 3) };
        for x in &s {
            for y in &s {
                f2.push(Scenario { base: b, seqs: vec![x.clone(), y.clone()], overlap: true });
            }
        }
    }
    run_family(&rep, if q { "F2-pairs-of-sequences-len2" } else { "F2-pairs-of-sequences-len3" }, f2);
    if !q {
        let mut f5 = vec![];
        for b in [Base::Empty, Base::Populated] {
            let s2 = two(b);
            let s1 = one(b);
            for x in &s2 {
                for y in &s2 {
                    for z in &s1 {
                        f5.push(Scenario { base: b, seqs: vec![x.clone(), y.clone(), z.clone()], overlap: false });
                    }
                }
            }
        }
        run_family(&rep, "F5-triples-len2-len2-len1", f5);
    }
    causal(&rep);
    rep.finish()
}

pub fn replay(case: &serde_json::Value) -> Result<(), String> {
    match case["kind"].as_str().unwrap_or("") {
        "c03-scenario" => {
            let sc: Scenario = serde_json::from_value(case["scenario"].clone()).map_err(|e| e.to_string())?;
            println!("scenario: {sc:?}");
            for order in permutations(sc.seqs.len()) {
                match run_order(&sc, &order) {
                    Ok(t) => println!("  sync order {order:?} -> {}", tasks_str(&t)),
                    Err(e) => println!("  sync order {order:?} -> ERROR {e}"),
                }
            }
            check_scenario(&sc).map(|_| ()).map_err(|e| e.1)
        }
        _ => Err("replay of this C03 case kind is done by re-running the check".into()),
    }
}
