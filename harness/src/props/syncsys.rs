//! The E-STATE system over the sync world, with the oracles of C01, C12 and C14 evaluated on
//! every transition and state.

use super::syncworld::*;
use crate::explore::state::Sys;
use crate::model::ops::{self, Tasks};
use crate::world::mserver::ChainState;
use std::sync::atomic::{AtomicU64, Ordering};

pub struct SyncSys {
    pub r: usize,
    pub tasks: Vec<u8>,
    /// (property, value, timestamp)
    pub updates: Vec<(String, Option<String>, i64)>,
    pub big_budget: u8,
    pub urgencies: Vec<Urg>,
    pub avoids: Vec<bool>,
    pub undo_points: bool,
    pub deletes: bool,
    /// include commits of several operations (create+set, delete+create+set)
    pub batches: bool,
    /// commits containing operations that are invalid where they stand
    pub messy: bool,
    /// updates that change a property record the NEW value as their old value (a stale caller)
    pub stale_old: bool,
    /// start from a world in which T1{p=base} exists on every replica and is synced
    pub populated: bool,
    /// only the first `active` replicas act (the others stay brand-new until something syncs them)
    pub active: usize,
    /// oracles
    pub c01: bool,
    pub c12: bool,
    pub c14: bool,
    /// counters
    pub syncs: AtomicU64,
    pub multi_version: AtomicU64,
    pub snapshots_checked: AtomicU64,
    pub segments_checked: AtomicU64,
    pub fresh_from_snapshot: AtomicU64,
    pub urgency_met_without_snapshot: AtomicU64,
}

impl SyncSys {
    pub fn new(r: usize) -> Self {
        SyncSys {
            r,
            tasks: vec![1],
            updates: vec![],
            big_budget: 0,
            urgencies: vec![Urg::None],
            avoids: vec![false],
            undo_points: false,
            deletes: true,
            batches: false,
            messy: false,
            stale_old: false,
            populated: false,
            active: r,
            c01: true,
            c12: false,
            c14: false,
            syncs: AtomicU64::new(0),
            multi_version: AtomicU64::new(0),
            snapshots_checked: AtomicU64::new(0),
            segments_checked: AtomicU64::new(0),
            fresh_from_snapshot: AtomicU64::new(0),
            urgency_met_without_snapshot: AtomicU64::new(0),
        }
    }
}

fn upd(p: &str, v: Option<&str>, ts: i64) -> (String, Option<String>, i64) {
    (p.to_string(), v.map(|s| s.to_string()), ts)
}

pub fn std_updates() -> Vec<(String, Option<String>, i64)> {
    vec![
        upd("p", Some("a"), 1),
        upd("p", Some("b"), 1),
        upd("p", Some("a"), 2),
        upd("p", Some("b"), 2),
        upd("p", None, 1),
        upd("p", None, 2),
        upd("p", Some(""), 1),
        upd("q", Some("a"), 1),
    ]
}

pub fn small_updates() -> Vec<(String, Option<String>, i64)> {
    vec![upd("p", Some("a"), 1), upd("p", Some("b"), 2), upd("p", Some("b"), 1), upd("q", Some("a"), 1)]
}

/// Check one sync step against the C12 / C14 oracles.
pub fn check_sync_step(
    sys: &SyncSys,
    before_chain_latest: Option<uuid::Uuid>,
    before: &crate::world::replicas::Obs,
    w: &World,
    out: &SyncOutcome,
    urg: Urg,
    avoid: bool,
) -> Result<(), String> {
    if sys.c14 {
        let mut sent = vec![];
        for &i in &out.added {
            let ops_ = ops::parse_version_strict(&w.chain.versions[i].seg).map_err(|e| format!("wire-format: {e}"))?;
            if ops_.is_empty() {
                return Err("wire-format: an empty version was sent".to_string());
            }
            sent.extend(ops_);
            sys.segments_checked.fetch_add(1, Ordering::Relaxed);
        }
        let nothing_to_pull = Some(before.base) == before_chain_latest || (before.base.is_nil() && before_chain_latest.is_none());
        if nothing_to_pull {
            let exp = expected_wire(&before.unsynced);
            let same = exp.len() == sent.len() && exp.iter().zip(&sent).all(|(a, b)| ops::mop_eq(a, b));
            if !same {
                return Err(format!(
                    "wire-content: with nothing to pull, the versions sent list {:?} but the documented conversion of the pending operations is {:?}",
                    abbrev_ops(&sent),
                    abbrev_ops(&exp)
                ));
            }
        }
    }
    if sys.c12 {
        let threshold_met = match (urg, avoid) {
            (Urg::High, _) => true,
            (Urg::Low, false) => true,
            _ => false,
        };
        for (v, bytes) in &out.snapshots {
            sys.snapshots_checked.fetch_add(1, Ordering::Relaxed);
            if !threshold_met {
                return Err(format!(
                    "snapshot-urgency: a snapshot was uploaded although the server's urgency {urg:?} is below the replica's threshold (avoid_snapshots={avoid})"
                ));
            }
            let got = decode_snapshot(bytes).map_err(|e| format!("snapshot-format: {e}"))?;
            let Some(segs) = w.chain.segments_upto(*v) else {
                return Err(format!("snapshot-version: snapshot uploaded for {} which is not on the chain", crate::world::replicas::tname(*v)));
            };
            let want = ops::replay_chain(segs).map_err(|e| format!("wire-format: {e}"))?;
            if got != want {
                return Err(format!(
                    "snapshot-content: snapshot for {} contains {} but replaying the chain up to that version gives {}",
                    crate::world::replicas::tname(*v),
                    crate::world::replicas::tasks_str(&got),
                    crate::world::replicas::tasks_str(&want)
                ));
            }
        }
        if threshold_met && !out.added.is_empty() && out.snapshots.is_empty() {
            sys.urgency_met_without_snapshot.fetch_add(1, Ordering::Relaxed);
        }
    }
    Ok(())
}

pub fn abbrev_ops(v: &[ops::MOp]) -> Vec<String> {
    v.iter()
        .map(|o| match o {
            ops::MOp::Create(u) => format!("Create({})", crate::world::replicas::tname(*u)),
            ops::MOp::Delete(u) => format!("Delete({})", crate::world::replicas::tname(*u)),
            ops::MOp::Update { uuid, prop, value, ts } => format!(
                "Update({}.{}={}@{})",
                crate::world::replicas::tname(*uuid),
                prop,
                value.as_deref().map(crate::world::replicas::abbrev).unwrap_or("∅".into()),
                ts
            ),
        })
        .collect()
}

/// A brand-new replica synced against a server that offers the latest snapshot and has
/// discarded every version up to it must end in the full-chain replay state.
pub fn fresh_from_snapshot(chain: &ChainState, want: &Tasks) -> Result<bool, String> {
    // latest snapshot by chain position
    let mut best: Option<usize> = None;
    for (v, _) in &chain.snapshots {
        if let Some(i) = chain.index_of(*v) {
            best = Some(best.map_or(i, |b| b.max(i)));
        }
    }
    let Some(upto) = best else { return Ok(false) };
    let mut w = World::new(1);
    w.chain = chain.clone();
    w.chain.discarded_upto = Some(upto);
    let out = do_sync(&mut w, 0, Urg::None, false, None, None);
    if let Err(e) = out.result {
        return Err(format!("fresh-replica-sync: a new replica could not sync from the snapshot: {e}"));
    }
    let o = obs_of(&mut w.reps[0]);
    if &o.tasks != want {
        return Err(format!(
            "fresh-from-snapshot: a new replica started from the snapshot holds {} but the full chain replays to {}",
            crate::world::replicas::tasks_str(&o.tasks),
            crate::world::replicas::tasks_str(want)
        ));
    }
    if Some(o.base) != chain.latest() {
        return Err("fresh-from-snapshot: new replica did not reach the latest version".into());
    }
    Ok(true)
}

impl Sys for SyncSys {
    type State = World;
    type Action = Act;

    fn init(&self) -> World {
        let mut w = World::new(self.r);
        if self.populated {
            do_local(&mut w, &Act::Create { r: 0, t: 1 }).unwrap();
            do_local(&mut w, &Act::Update { r: 0, t: 1, p: "p".into(), v: Some("base".into()), ts: 0 }).unwrap();
            w = quiesce(&w).expect("populated base quiesces").1;
        }
        w
    }

    fn actions(&self, s: &World, _left: usize) -> Vec<Act> {
        let mut out = vec![];
        for r in 0..self.r.min(self.active) {
            let obs = s.obs[r].clone();
            for &t in &self.tasks {
                let present = obs.tasks.contains_key(&crate::world::replicas::tid(t));
                if self.messy {
                    out.push(Act::Messy { r, t });
                    if !present {
                        out.push(Act::Ghost { r, t });
                    }
                }
                if !present {
                    if self.deletes || !self.populated {
                        out.push(Act::Create { r, t });
                        if self.batches {
                            out.push(Act::CreateSet { r, t });
                        }
                    }
                } else {
                    if self.batches && self.deletes {
                        out.push(Act::Recreate { r, t });
                    }
                    for (p, v, ts) in &self.updates {
                        let stored = obs.tasks.get(&crate::world::replicas::tid(t)).and_then(|m| m.get(p));
                        if self.stale_old && stored != v.as_ref() {
                            out.push(Act::UpdateStale { r, t, p: p.clone(), v: v.clone(), ts: *ts });
                            continue;
                        }
                        out.push(Act::Update {
                            r,
                            t,
                            p: p.clone(),
                            v: v.clone(),
                            ts: *ts,
                        });
                    }
                    if s.big_used < self.big_budget {
                        out.push(Act::Big { r, t, ts: 1 });
                    }
                    if self.deletes {
                        out.push(Act::Delete { r, t });
                    }
                }
            }
            if self.undo_points && !obs.unsynced.last().is_some_and(|o| o.is_undo_point()) {
                out.push(Act::UndoPoint { r });
            }
            for &urg in &self.urgencies {
                for &avoid in &self.avoids {
                    out.push(Act::Sync { r, urg, avoid });
                }
            }
        }
        out
    }

    fn step(&self, s: &World, a: &Act) -> Result<World, String> {
        let mut w = s.clone();
        match a {
            Act::Sync { r, urg, avoid } => {
                let before = w.obs[*r].clone();
                let latest = w.chain.latest();
                let out = do_sync(&mut w, *r, *urg, *avoid, None, None);
                self.syncs.fetch_add(1, Ordering::Relaxed);
                if out.added.len() >= 2 {
                    self.multi_version.fetch_add(1, Ordering::Relaxed);
                }
                if let Err(e) = &out.result {
                    return Err(tag_known(&w, format!("sync-failed: {}: {e}", act_str(a))));
                }
                check_sync_step(self, latest, &before, &w, &out, *urg, *avoid).map_err(|e| tag_known(&w, e))?;
            }
            _ => {
                do_local(&mut w, a)?;
            }
        }
        Ok(w)
    }

    fn canon(&self, s: &World) -> u128 {
        canon(s)
    }

    fn check(&self, s: &World, _trace: &[Act]) -> Result<bool, String> {
        let w = s;
        let obs = world_obs(w);
        // a state is non-trivial when its quiescing run has to rebase something: some replica has
        // pending operations while another has pending operations or unseen versions; or when
        // it contains a sync that produced several versions
        let pending = obs.iter().filter(|o| !o.unsynced.is_empty()).count();
        let behind = obs.iter().filter(|o| Some(o.base) != w.chain.latest() && !w.chain.versions.is_empty()).count();
        let mut nontrivial = (pending >= 1 && (behind >= 1 || pending >= 2)) || s.multi_version_syncs > 0;
        if self.c01 {
            for (i, o) in obs.iter().enumerate() {
                replica_invariant(&w.chain, o, i).map_err(|e| tag_known(w, e))?;
            }
            quiesce(w)?;
        }
        if self.c12 {
            let want = ops::replay_chain(w.chain.all_segments()).map_err(|e| format!("wire-format: {e}"))?;
            if fresh_from_snapshot(&w.chain, &want)? {
                self.fresh_from_snapshot.fetch_add(1, Ordering::Relaxed);
                nontrivial = true;
            } else {
                nontrivial = false;
            }
        }
        if self.c14 && !self.c01 {
            // non-trivial for the wire-format oracle: the chain carries at least one version
            nontrivial = !w.chain.versions.is_empty() && nontrivial;
        }
        Ok(nontrivial)
    }
}

/// The system (with the oracles of `prop`) used to replay a trace found in `space`.
pub fn sys_for(prop: &str, _space: &str) -> SyncSys {
    let mut s = SyncSys::new(4);
    s.c01 = prop == "C01" || prop == "C02" || prop == "C04";
    s.c12 = prop == "C12";
    s.c14 = prop == "C14";
    s
}
