//! C18 – reading tasks never panics, whatever the stored data (exhaustive input sweep).

use crate::util::{Opts, Report, Tier, Violation};
use crate::world::proxy::Ctl;
use crate::world::replicas::{with_replica, Mem};
use rayon::prelude::*;
use serde_json::json;
use std::panic::{catch_unwind, AssertUnwindSafe};
use taskchampion::{Operation, Replica, Status, Tag, Task, TaskData};
use uuid::Uuid;

fn keys() -> Vec<String> {
    let u = Uuid::from_u128(0xD0).to_string();
    let mut v: Vec<String> = [
        "status", "description", "modified", "start", "end", "wait", "due", "entry", "priority", "tag_ok", "tag_", "tag_a b", "tag_+x", "tag_PENDING", "tag_1abc",
        "annotation_1700000000", "annotation_x", "annotation_9223372036854775807", "annotation_-5", "annotation_", "annotation_8210266876800", "dep_x", "dep_", "uda", "ns.key",
        "",
    ]
    .iter()
    .map(|s| s.to_string())
    .collect();
    v.push(format!("dep_{u}"));
    v.push(format!("dep_{}", Uuid::from_u128(0xD1)));
    // long names made of multi-byte characters, shifted by 0..w-1 ASCII bytes, so that EVERY byte
    // offset up to several hundred falls inside a character in one of them (code that cuts or
    // indexes a name at a fixed byte position); once well-formed at the front, once not
    for long in long_multibyte() {
        for prefix in ["tag_", "tag_+", "annotation_", "dep_", "uda."] {
            v.push(format!("{prefix}{long}"));
        }
    }
    v
}

fn long_multibyte() -> Vec<String> {
    let mut v = vec![];
    for (ch, w) in [('\u{e9}', 2usize), ('\u{20ac}', 3), ('\u{1F600}', 4)] {
        for shift in 0..w {
            v.push(format!("{}{}", "a".repeat(shift), ch.to_string().repeat(130)));
        }
    }
    v
}

fn values() -> Vec<String> {
    let mut v: Vec<String> = [
        "", "0", "-1", "1700000000", "8210266876799", "8210266876800", "-8334601228800", "-8334601228801", "9223372036854775807", "-9223372036854775808", "9223372036854775808", "1e5",
        " 5", "+5", "٣", "pending", "completed", "deleted", "recurring", "Pending", "x",
    ]
    .iter()
    .map(|s| s.to_string())
    .collect();
    v.push("y".repeat(10_000));
    v.extend(long_multibyte());
    v
}

fn reduced() -> Vec<(String, String)> {
    let k = ["status", "wait", "due", "modified", "start", "annotation_8210266876800", "tag_ok", "entry"];
    let vals = ["pending", "deleted", "8210266876800", "-9223372036854775808", "1700000000", "x"];
    let mut out = vec![];
    for a in k {
        for b in vals {
            out.push((a.to_string(), b.to_string()));
        }
    }
    out.push((format!("dep_{}", Uuid::from_u128(0xD0)), "".to_string()));
    out
}

fn t_uuid() -> Uuid {
    Uuid::from_u128(0xD1)
}

/// Touch every public read accessor of a Task. Any panic propagates to the caller's catch_unwind.
#[allow(deprecated)]
fn read_task(t: &Task, probe_keys: &[String]) -> usize {
    let mut n = 0;
    let _ = t.get_uuid();
    let _ = t.get_taskmap();
    let _ = t.get_status();
    let _ = t.get_description();
    let _ = t.get_entry();
    let _ = t.get_priority();
    let _ = t.get_wait();
    let _ = t.is_waiting();
    let _ = t.is_active();
    let _ = t.is_blocked();
    let _ = t.is_blocking();
    n += 11;
    for tag in ["ok", "next", "PENDING", "WAITING", "ACTIVE", "BLOCKED", "UNBLOCKED", "BLOCKING", "COMPLETED", "DELETED"] {
        if let Ok(tg) = Tag::try_from(tag) {
            let _ = t.has_tag(&tg);
            let _ = tg.is_synthetic();
            let _ = tg.is_user();
            let _ = format!("{tg}");
            n += 1;
        }
    }
    let tags: Vec<Tag> = t.get_tags().collect();
    for tg in &tags {
        let _ = format!("{tg} {tg:?}");
        let _ = t.has_tag(tg);
    }
    let anns: Vec<_> = t.get_annotations().collect();
    for a in &anns {
        let _ = format!("{a:?}");
        let _ = a.entry.timestamp();
    }
    let _ = t.get_uda("ns", "key");
    let _ = t.get_udas().count();
    let _ = t.get_legacy_uda("uda");
    let _ = t.get_legacy_udas().count();
    let _ = t.get_user_defined_attribute("uda");
    let _ = t.get_user_defined_attributes().count();
    let _ = t.get_modified();
    let _ = t.get_due();
    let _ = t.get_dependencies().count();
    n += 12;
    for k in probe_keys {
        let _ = t.get_value(k.clone());
        let _ = t.get_timestamp(k);
        n += 2;
    }
    let _ = format!("{t:?}");
    let c = t.clone();
    let _ = c == *t;
    let td = c.into_task_data();
    n += read_task_data(&td, probe_keys);
    n
}

fn read_task_data(td: &TaskData, probe_keys: &[String]) -> usize {
    let _ = td.get_uuid();
    for k in probe_keys {
        let _ = td.get(k);
        let _ = td.has(k);
    }
    let _ = td.properties().count();
    let _ = td.iter().count();
    let _ = format!("{td:?}");
    let _ = td.clone() == *td;
    6 + 2 * probe_keys.len()
}

/// All reads of a replica holding the given task map (plus a second, well-formed pending task
/// that the first may depend on).
async fn read_all(rep: &mut Replica<crate::world::proxy::Proxy<Mem>>, probe_keys: &[String]) -> Result<usize, String> {
    let mut n = 0;
    let e = |e: taskchampion::Error| format!("read-error: {e:#}");
    let all = rep.all_tasks().await.map_err(e)?;
    for t in all.values() {
        n += read_task(t, probe_keys);
    }
    for td in rep.all_task_data().await.map_err(e)?.values() {
        n += read_task_data(td, probe_keys);
    }
    let uuids = rep.all_task_uuids().await.map_err(e)?;
    for t in rep.pending_tasks().await.map_err(e)? {
        n += read_task(&t, probe_keys);
    }
    for td in rep.pending_task_data().await.map_err(e)? {
        n += read_task_data(&td, probe_keys);
    }
    let ws = rep.working_set().await.map_err(e)?;
    let _ = (ws.len(), ws.largest_index(), ws.is_empty(), format!("{ws:?}"));
    for i in 0..ws.largest_index() + 2 {
        let _ = ws.by_index(i);
    }
    for u in &uuids {
        let _ = ws.by_uuid(*u);
    }
    let _ = ws.iter().count();
    n += 8;
    for force in [true, false] {
        let dm = rep.dependency_map(force).await.map_err(e)?;
        for u in &uuids {
            let _ = dm.dependencies(*u).count();
            let _ = dm.dependents(*u).count();
        }
        let _ = format!("{dm:?}");
        n += 3;
    }
    for u in uuids.iter().chain([Uuid::nil()].iter()) {
        if let Some(t) = rep.get_task(*u).await.map_err(e)? {
            n += read_task(&t, probe_keys);
        }
        if let Some(td) = rep.get_task_data(*u).await.map_err(e)? {
            n += read_task_data(&td, probe_keys);
        }
        let _ = rep.get_task_operations(*u).await.map_err(e)?;
        n += 3;
    }
    let _ = rep.get_undo_operations().await.map_err(e)?;
    let _ = rep.num_local_operations().await.map_err(e)?;
    let _ = rep.num_undo_points().await.map_err(e)?;
    n += 3;
    Ok(n)
}

fn ops_for(map: &[(String, String)]) -> Vec<Operation> {
    let u = t_uuid();
    let other = Uuid::from_u128(0xD0);
    let ts = super::syncworld::ts(1);
    let mut ops_ = vec![
        Operation::Create { uuid: other },
        Operation::Update { uuid: other, property: "status".into(), old_value: None, value: Some("pending".into()), timestamp: ts },
        Operation::Update { uuid: other, property: format!("dep_{u}"), old_value: None, value: Some("".into()), timestamp: ts },
        Operation::Create { uuid: u },
    ];
    for (k, v) in map {
        ops_.push(Operation::Update { uuid: u, property: k.clone(), old_value: None, value: Some(v.clone()), timestamp: ts });
    }
    ops_
}

/// Returns Ok(reads) or Err(description of a panic / error).
fn check_map(map: &[(String, String)], via_sync: bool, probe_keys: &[String]) -> Result<usize, String> {
    let ops_ = ops_for(map);
    let r = catch_unwind(AssertUnwindSafe(|| {
        crate::util::block_on(async {
            let mut mem = Mem::default();
            let mut res = with_replica(&mut mem, Ctl::new(), async |rep| {
                rep.commit_operations(ops_).await.map_err(|e| format!("commit-failed: {e:#}"))?;
                rep.rebuild_working_set(true).await.map_err(|e| format!("rebuild-failed: {e:#}"))?;
                read_all(rep, probe_keys).await
            })
            .await?;
            if via_sync {
                let chain = std::sync::Arc::new(std::sync::Mutex::new(crate::world::mserver::ChainState::default()));
                let mut s1 = crate::world::mserver::MServer::new(chain.clone(), 0).boxed();
                with_replica(&mut mem, Ctl::new(), async |rep| rep.sync(&mut s1, false).await.map_err(|e| format!("sync-failed: {e:#}"))).await?;
                let mut mem2 = Mem::default();
                let mut s2 = crate::world::mserver::MServer::new(chain, 1).boxed();
                res += with_replica(&mut mem2, Ctl::new(), async |rep| {
                    rep.sync(&mut s2, false).await.map_err(|e| format!("sync-failed: {e:#}"))?;
                    read_all(rep, probe_keys).await
                })
                .await?;
            }
            Ok::<usize, String>(res)
        })
    }));
    match r {
        Ok(x) => x,
        Err(p) => {
            let msg = p.downcast_ref::<String>().cloned().or_else(|| p.downcast_ref::<&str>().map(|s| s.to_string())).unwrap_or_else(|| "panic".into());
            Err(format!("panic: a read accessor panicked on task {:?}: {msg}", map.iter().map(|(k, v)| (k.clone(), crate::world::replicas::abbrev(v))).collect::<Vec<_>>()))
        }
    }
}

pub fn run(opts: &Opts) -> i32 {
    let rep = Report::new("C18", "exploration", opts);
    rep.set("exhaustive", true);
    rep.set("rule", "task maps = every single (key,value) entry, every pair of entries with different keys, and every triple from a reduced alphabet, over 28 recognised keys/prefixes (malformed tag/annotation/dep keys included) x 22 values (empty, negative, boundary of the calendar range +-1, i64 extremes, 2^63, floats, padded, signed, non-ASCII digits, known statuses, wrong case, 10 KB); stored by real operations next to a pending task that depends on it (singles also through sync into a second replica); then EVERY public read method of Task, TaskData, WorkingSet, DependencyMap and Replica under catch_unwind; distinct_nontrivial = maps containing at least one value that fails to parse or is out of range for its key");
    std::panic::set_hook(Box::new(|_| {}));
    let ks = keys();
    let vs = values();
    let probe: Vec<String> = ks.clone();
    let mut entries: Vec<(String, String)> = vec![];
    for k in &ks {
        for v in &vs {
            entries.push((k.clone(), v.clone()));
        }
    }
    let mut maps: Vec<(Vec<(String, String)>, bool)> = entries.iter().map(|e| (vec![e.clone()], true)).collect();
    let q = opts.tier == Tier::Quick;
    // pairs: quick uses the timestamp-like and status keys against everything; thorough all pairs
    for (i, a) in entries.iter().enumerate() {
        for b in entries.iter().skip(i + 1) {
            if a.0 == b.0 {
                continue;
            }
            if q && !(["status", "wait", "modified", "start"].contains(&a.0.as_str()) || ["status", "wait", "modified", "start"].contains(&b.0.as_str())) {
                continue;
            }
            maps.push((vec![a.clone(), b.clone()], false));
        }
    }
    let red = reduced();
    for i in 0..red.len() {
        for j in i + 1..red.len() {
            for k in j + 1..red.len() {
                if red[i].0 == red[j].0 || red[j].0 == red[k].0 || red[i].0 == red[k].0 {
                    continue;
                }
                maps.push((vec![red[i].clone(), red[j].clone(), red[k].clone()], false));
            }
        }
    }
    let results: Vec<(usize, Result<usize, String>)> = maps
        .par_iter()
        .enumerate()
        .map(|(i, (m, via_sync))| {
            if rep.over_budget() {
                return (i, Ok(0));
            }
            (i, check_map(m, *via_sync, &probe))
        })
        .collect();
    let _ = std::panic::take_hook();
    let mut reads = 0u64;
    let mut skipped = 0u64;
    for (i, r) in results {
        match r {
            Ok(0) => skipped += 1,
            Ok(n) => reads += n as u64,
            Err(e) => {
                let m = &maps[i].0;
                let sig = format!("{}:{}", e.split(':').next().unwrap_or(""), m.iter().map(|(k, _)| k.split('_').next().unwrap_or("").to_string()).collect::<Vec<_>>().join("+"));
                rep.violation(Violation::new(sig, e, json!({"kind": "c18-map", "map": m, "via_sync": maps[i].1})));
            }
        }
    }
    if skipped > 0 {
        rep.set("exhaustive", false);
        rep.set("skipped_for_budget", skipped);
    }
    let nontrivial = maps
        .iter()
        .filter(|(m, _)| m.iter().any(|(k, v)| (["modified", "start", "end", "wait", "due", "entry"].contains(&k.as_str()) && v.parse::<i64>().map(|x| chrono::DateTime::from_timestamp(x, 0).is_none()).unwrap_or(true)) || k.starts_with("annotation_") || k.starts_with("tag_") || k.starts_with("dep_")))
        .count();
    rep.add("evaluations", maps.len() as u64);
    rep.add("accessor_calls", reads);
    rep.add("distinct_nontrivial", nontrivial as u64);
    rep.sample(json!({"map": maps[maps.len() / 3].0.iter().map(|(k, v)| (k.clone(), crate::world::replicas::abbrev(v))).collect::<Vec<_>>()}));
    rep.sample(json!({"map": maps[maps.len() - 1].0}));
    println!("[C18] {} task maps, {reads} accessor calls ({:.1}s)", maps.len(), rep.elapsed());
    rep.finish()
}

pub fn replay(case: &serde_json::Value) -> Result<(), String> {
    let m: Vec<(String, String)> = serde_json::from_value(case["map"].clone()).map_err(|e| e.to_string())?;
    println!("task map: {:?}", m.iter().map(|(k, v)| (k.clone(), crate::world::replicas::abbrev(v))).collect::<Vec<_>>());
    check_map(&m, case["via_sync"].as_bool().unwrap_or(false), &keys()).map(|n| println!("{n} accessor calls, no panic"))
}

#[allow(dead_code)]
fn _unused(_: Status) {}
