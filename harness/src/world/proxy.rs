//! A `Storage` proxy around any real storage. It (a) hands the inner storage back when the
//! `Replica` owning it is dropped, (b) numbers every storage call as a fault-injection point,
//! and (c) optionally parks every call at a scheduler gate.

use crate::explore::sched::{GateH, Go};
use async_trait::async_trait;
use std::sync::atomic::{AtomicBool, AtomicUsize, Ordering};
use std::sync::{Arc, Mutex};
use taskchampion::storage::{Storage, StorageTxn, TaskMap};
use taskchampion::{Error, Operation};
use uuid::Uuid;

type Result<T> = std::result::Result<T, Error>;

/// What happens at the injected call index.
#[derive(Clone, Copy, Debug, PartialEq, Eq, serde::Serialize, serde::Deserialize)]
pub enum StorageFault {
    /// the call returns an error without effect
    Error,
    /// the call never returns (the harness drops the future: "process stops here")
    Stop,
}

pub struct Ctl {
    pub calls: AtomicUsize,
    pub fail_at: AtomicUsize,
    pub kind: Mutex<StorageFault>,
    pub stopped: AtomicBool,
    pub record: AtomicBool,
    pub log: Mutex<Vec<String>>,
    pub gate: Mutex<GateH>,
    /// gate only these calls (empty = all) when a gate is set
    pub gate_filter: Mutex<Vec<&'static str>>,
}

impl Default for Ctl {
    fn default() -> Self {
        Ctl {
            calls: AtomicUsize::new(0),
            fail_at: AtomicUsize::new(usize::MAX),
            kind: Mutex::new(StorageFault::Error),
            stopped: AtomicBool::new(false),
            record: AtomicBool::new(false),
            log: Mutex::new(vec![]),
            gate: Mutex::new(GateH::none()),
            gate_filter: Mutex::new(vec![]),
        }
    }
}

impl Ctl {
    pub fn new() -> Arc<Self> {
        Arc::new(Self::default())
    }

    pub fn arm(&self, at: usize, kind: StorageFault) {
        self.calls.store(0, Ordering::SeqCst);
        self.fail_at.store(at, Ordering::SeqCst);
        *self.kind.lock().unwrap() = kind;
        self.stopped.store(false, Ordering::SeqCst);
    }

    pub fn disarm(&self) {
        self.fail_at.store(usize::MAX, Ordering::SeqCst);
    }

    pub fn start_recording(&self) {
        self.calls.store(0, Ordering::SeqCst);
        self.log.lock().unwrap().clear();
        self.record.store(true, Ordering::SeqCst);
    }

    pub fn take_log(&self) -> Vec<String> {
        self.record.store(false, Ordering::SeqCst);
        std::mem::take(&mut *self.log.lock().unwrap())
    }

    async fn point(&self, label: &'static str) -> Result<()> {
        let k = self.calls.fetch_add(1, Ordering::SeqCst);
        if self.record.load(Ordering::SeqCst) {
            self.log.lock().unwrap().push(label.to_string());
        }
        let gate = self.gate.lock().unwrap().clone();
        if gate.st.is_some() || gate.pipe {
            let filter = self.gate_filter.lock().unwrap().clone();
            if filter.is_empty() || filter.contains(&label) {
                match gate.pass(format!("storage:{label}")).await {
                    Go::Proceed => {}
                    _ => return Err(Error::Database(format!("injected storage failure at {label}"))),
                }
            }
        }
        if k == self.fail_at.load(Ordering::SeqCst) {
            let kind = *self.kind.lock().unwrap();
            match kind {
                StorageFault::Error => {
                    return Err(Error::Database(format!("injected storage failure at call {k} ({label})")))
                }
                StorageFault::Stop => {
                    self.stopped.store(true, Ordering::SeqCst);
                    std::future::pending::<()>().await;
                }
            }
        }
        Ok(())
    }
}

pub struct Proxy<S: Storage> {
    inner: Option<S>,
    back: Arc<Mutex<Option<S>>>,
    pub ctl: Arc<Ctl>,
}

impl<S: Storage> Proxy<S> {
    pub fn new(inner: S, ctl: Arc<Ctl>) -> (Self, Arc<Mutex<Option<S>>>) {
        let back = Arc::new(Mutex::new(None));
        (
            Proxy {
                inner: Some(inner),
                back: back.clone(),
                ctl,
            },
            back,
        )
    }
}

impl<S: Storage> Drop for Proxy<S> {
    fn drop(&mut self) {
        *self.back.lock().unwrap() = self.inner.take();
    }
}

#[async_trait]
impl<S: Storage> Storage for Proxy<S> {
    async fn txn<'a>(&'a mut self) -> Result<Box<dyn StorageTxn + Send + 'a>> {
        self.ctl.point("txn").await?;
        let t = self.inner.as_mut().unwrap().txn().await?;
        Ok(Box::new(PTxn {
            t,
            ctl: self.ctl.clone(),
        }))
    }
}

struct PTxn<'a> {
    t: Box<dyn StorageTxn + Send + 'a>,
    ctl: Arc<Ctl>,
}

#[async_trait]
impl StorageTxn for PTxn<'_> {
    async fn get_task(&mut self, uuid: Uuid) -> Result<Option<TaskMap>> {
        self.ctl.point("get_task").await?;
        self.t.get_task(uuid).await
    }
    async fn get_pending_tasks(&mut self) -> Result<Vec<(Uuid, TaskMap)>> {
        self.ctl.point("get_pending_tasks").await?;
        self.t.get_pending_tasks().await
    }
    async fn create_task(&mut self, uuid: Uuid) -> Result<bool> {
        self.ctl.point("create_task").await?;
        self.t.create_task(uuid).await
    }
    async fn set_task(&mut self, uuid: Uuid, task: TaskMap) -> Result<()> {
        self.ctl.point("set_task").await?;
        self.t.set_task(uuid, task).await
    }
    async fn delete_task(&mut self, uuid: Uuid) -> Result<bool> {
        self.ctl.point("delete_task").await?;
        self.t.delete_task(uuid).await
    }
    async fn all_tasks(&mut self) -> Result<Vec<(Uuid, TaskMap)>> {
        self.ctl.point("all_tasks").await?;
        self.t.all_tasks().await
    }
    async fn all_task_uuids(&mut self) -> Result<Vec<Uuid>> {
        self.ctl.point("all_task_uuids").await?;
        self.t.all_task_uuids().await
    }
    async fn base_version(&mut self) -> Result<Uuid> {
        self.ctl.point("base_version").await?;
        self.t.base_version().await
    }
    async fn set_base_version(&mut self, version: Uuid) -> Result<()> {
        self.ctl.point("set_base_version").await?;
        self.t.set_base_version(version).await
    }
    async fn get_task_operations(&mut self, uuid: Uuid) -> Result<Vec<Operation>> {
        self.ctl.point("get_task_operations").await?;
        self.t.get_task_operations(uuid).await
    }
    async fn unsynced_operations(&mut self) -> Result<Vec<Operation>> {
        self.ctl.point("unsynced_operations").await?;
        self.t.unsynced_operations().await
    }
    async fn num_unsynced_operations(&mut self) -> Result<usize> {
        self.ctl.point("num_unsynced_operations").await?;
        self.t.num_unsynced_operations().await
    }
    async fn add_operation(&mut self, op: Operation) -> Result<()> {
        self.ctl.point("add_operation").await?;
        self.t.add_operation(op).await
    }
    async fn remove_operation(&mut self, op: Operation) -> Result<()> {
        self.ctl.point("remove_operation").await?;
        self.t.remove_operation(op).await
    }
    async fn sync_complete(&mut self) -> Result<()> {
        self.ctl.point("sync_complete").await?;
        self.t.sync_complete().await
    }
    async fn get_working_set(&mut self) -> Result<Vec<Option<Uuid>>> {
        self.ctl.point("get_working_set").await?;
        self.t.get_working_set().await
    }
    async fn add_to_working_set(&mut self, uuid: Uuid) -> Result<usize> {
        self.ctl.point("add_to_working_set").await?;
        self.t.add_to_working_set(uuid).await
    }
    async fn set_working_set_item(&mut self, index: usize, uuid: Option<Uuid>) -> Result<()> {
        self.ctl.point("set_working_set_item").await?;
        self.t.set_working_set_item(index, uuid).await
    }
    async fn clear_working_set(&mut self) -> Result<()> {
        self.ctl.point("clear_working_set").await?;
        self.t.clear_working_set().await
    }
    async fn is_empty(&mut self) -> Result<bool> {
        self.ctl.point("is_empty").await?;
        self.t.is_empty().await
    }
    async fn commit(&mut self) -> Result<()> {
        self.ctl.point("commit").await?;
        self.t.commit().await
    }
}
