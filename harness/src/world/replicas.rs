//! Running real `Replica`s over clonable in-memory storages, and observing them.

use crate::model::ops::{TaskProps, Tasks};
use crate::world::proxy::{Ctl, Proxy};
use std::sync::Arc;
use taskchampion::storage::inmemory::InMemoryStorage;
use taskchampion::storage::Storage;
use taskchampion::{Operation, Replica};
use uuid::Uuid;

/// Task ids used by the alphabets.
pub fn tid(n: u8) -> Uuid {
    Uuid::from_u128(0x7A5C_0000_0000_0000_0000_0000_0000_0000u128 + n as u128)
}

pub fn tname(u: Uuid) -> String {
    let n = u.as_u128();
    if n >> 112 == 0x7A5C {
        format!("T{}", n & 0xff)
    } else if n >> 124 == 0xA {
        format!("v{}", n & 0xffff_ffff)
    } else if u.is_nil() {
        "nil".into()
    } else {
        u.to_string()
    }
}

pub const BIG_LEN: usize = 1_000_001;

pub fn big_value() -> String {
    "x".repeat(BIG_LEN)
}

/// What can be observed of a replica through its storage.
#[derive(Clone, Debug, PartialEq, Eq)]
pub struct Obs {
    pub tasks: Tasks,
    pub base: Uuid,
    pub unsynced: Vec<Operation>,
    pub ws: Vec<Option<Uuid>>,
}

pub async fn observe<S: Storage>(st: &mut S) -> Obs {
    let mut txn = st.txn().await.expect("txn");
    let mut tasks = Tasks::new();
    for (u, tm) in txn.all_tasks().await.expect("all_tasks") {
        tasks.insert(u, tm.into_iter().collect::<TaskProps>());
    }
    Obs {
        tasks,
        base: txn.base_version().await.expect("base_version"),
        unsynced: txn.unsynced_operations().await.expect("unsynced"),
        ws: txn.get_working_set().await.expect("ws"),
    }
}

/// Abbreviate a value for canonical forms and printing.
pub fn abbrev(v: &str) -> String {
    if v.len() > 64 {
        format!("<{} bytes>", v.len())
    } else {
        v.to_string()
    }
}

pub fn op_str(op: &Operation) -> String {
    match op {
        Operation::Create { uuid } => format!("Create({})", tname(*uuid)),
        Operation::Delete { uuid, old_task } => {
            let mut o: Vec<_> = old_task.iter().map(|(k, v)| format!("{k}={}", abbrev(v))).collect();
            o.sort();
            format!("Delete({},{{{}}})", tname(*uuid), o.join(","))
        }
        Operation::Update {
            uuid,
            property,
            old_value,
            value,
            timestamp,
        } => format!(
            "Update({}.{}:{}->{}@{})",
            tname(*uuid),
            property,
            old_value.as_deref().map(abbrev).unwrap_or("∅".into()),
            value.as_deref().map(abbrev).unwrap_or("∅".into()),
            timestamp.timestamp()
        ),
        Operation::UndoPoint => "UndoPoint".into(),
    }
}

pub fn tasks_str(t: &Tasks) -> String {
    let mut out = vec![];
    for (u, props) in t {
        let p: Vec<_> = props.iter().map(|(k, v)| format!("{k}={}", abbrev(v))).collect();
        out.push(format!("{}{{{}}}", tname(*u), p.join(",")));
    }
    format!("[{}]", out.join(" "))
}

impl Obs {
    pub fn canon(&self) -> String {
        let ops: Vec<_> = self.unsynced.iter().map(op_str).collect();
        let ws: Vec<_> = self.ws.iter().map(|w| w.map(tname).unwrap_or("-".into())).collect();
        format!(
            "tasks={} base={} ops=[{}] ws=[{}]",
            tasks_str(&self.tasks),
            tname(self.base),
            ops.join(";"),
            ws.join(",")
        )
    }
}

/// Run `f` on a real `Replica` built over (a proxy around) `st`; the storage is put back
/// afterwards whatever happened -- also when the returned future is dropped half-way or unwinds
/// (a simulated process stop): the uncommitted transaction is then simply lost.
pub async fn with_replica<S, R, F>(st: &mut S, ctl: Arc<Ctl>, f: F) -> R
where
    S: Storage + Default,
    F: AsyncFnOnce(&mut Replica<Proxy<S>>) -> R,
{
    struct Restore<'a, S: Storage> {
        st: &'a mut S,
        back: Arc<std::sync::Mutex<Option<S>>>,
    }
    impl<S: Storage> Drop for Restore<'_, S> {
        fn drop(&mut self) {
            if let Some(s) = self.back.lock().unwrap().take() {
                *self.st = s;
            }
        }
    }
    let inner = std::mem::take(st);
    let (proxy, back) = Proxy::new(inner, ctl);
    // declared before the replica so that it is dropped after it
    let _restore = Restore { st, back };
    let mut rep = Replica::new(proxy);
    let r = f(&mut rep).await;
    drop(rep);
    r
}

/// Like [`with_replica`] for storages without `Default`: takes the storage by value and
/// returns it.
pub async fn with_owned<S, R, F>(st: S, ctl: Arc<Ctl>, f: F) -> (S, R)
where
    S: Storage,
    F: AsyncFnOnce(&mut Replica<Proxy<S>>) -> R,
{
    let (proxy, back) = Proxy::new(st, ctl);
    let mut rep = Replica::new(proxy);
    let r = f(&mut rep).await;
    drop(rep);
    let st = back.lock().unwrap().take().expect("storage handed back");
    (st, r)
}

/// `InMemoryStorage` has no `Default`; this newtype gives it one and forwards `Storage`.
#[derive(Clone, Debug, PartialEq)]
pub struct Mem(pub InMemoryStorage);

impl Default for Mem {
    fn default() -> Self {
        Mem(InMemoryStorage::new())
    }
}

#[async_trait::async_trait]
impl Storage for Mem {
    async fn txn<'a>(
        &'a mut self,
    ) -> Result<Box<dyn taskchampion::storage::StorageTxn + Send + 'a>, taskchampion::Error> {
        self.0.txn().await
    }
}
