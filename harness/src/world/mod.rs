pub mod mserver;
pub mod proxy;
pub mod replicas;
pub mod store;
pub mod cloud;
pub mod backends;
