//! The provided server backends behind `Box<dyn Server>` handles, built the way an application
//! builds them (ServerConfig::into_server) where possible, plus the harness HTTP server that
//! implements docs/src/http.md.

use crate::world::cloud;
use crate::world::store::{copy_dir, fresh_dir};
use std::path::PathBuf;
use std::sync::{Arc, Mutex};
use taskchampion::server::verif::MemStore;
use taskchampion::{Server, ServerConfig};
use uuid::Uuid;

#[derive(Clone, Copy, Debug, PartialEq, Eq, Hash, serde::Serialize, serde::Deserialize)]
pub enum BackendKind {
    Local,
    GitLocal,
    GitRemote,
    /// a shared bare remote that is still empty; both clones are made from it (each one
    /// creates its own initial commit and salt, the first push publishes one of them)
    GitRemoteFresh,
    Cloud,
    Http,
}

pub const SECRET: &[u8] = cloud::SECRET;

pub fn client_id() -> Uuid {
    Uuid::from_u128(0xC11E_0000_0000_0000_0000_0000_0000_0001)
}

// ---------------------------------------------------------------- HTTP harness server

#[derive(Default, Debug, Clone)]
pub struct HttpState {
    pub versions: Vec<(Uuid, Uuid, Vec<u8>)>, // (id, parent, body as received)
    pub snapshots: Vec<(Uuid, Vec<u8>)>,
    pub next: u32,
    /// urgency header to send on the next accepted versions
    pub urgency: Option<&'static str>,
    /// protocol violations by the client observed by the server (wrong content type etc.)
    pub complaints: Vec<String>,
}

pub struct HttpHarness {
    pub state: Arc<Mutex<HttpState>>,
    server: Arc<tiny_http::Server>,
    thread: Option<std::thread::JoinHandle<()>>,
    pub url: String,
}

fn hdr(name: &str, value: &str) -> tiny_http::Header {
    tiny_http::Header::from_bytes(name.as_bytes(), value.as_bytes()).unwrap()
}

impl HttpHarness {
    pub fn start() -> HttpHarness {
        let server = Arc::new(tiny_http::Server::http("127.0.0.1:0").expect("bind"));
        let port = server.server_addr().to_ip().unwrap().port();
        let state = Arc::new(Mutex::new(HttpState::default()));
        let (s2, st2) = (server.clone(), state.clone());
        let thread = std::thread::spawn(move || {
            for mut req in s2.incoming_requests() {
                let url = req.url().to_string();
                let method = req.method().clone();
                let mut body = vec![];
                let _ = req.as_reader().read_to_end(&mut body);
                let ctype = req.headers().iter().find(|h| h.field.equiv("Content-Type")).map(|h| h.value.to_string());
                let client = req.headers().iter().find(|h| h.field.equiv("X-Client-Id")).map(|h| h.value.to_string());
                let mut st = st2.lock().unwrap();
                if client.as_deref() != Some(&client_id().to_string()) {
                    st.complaints.push(format!("request {url} without the X-Client-Id header in dashed-hex form: {client:?}"));
                }
                let parts: Vec<&str> = url.trim_start_matches('/').split('/').collect();
                let resp = match (method, parts.as_slice()) {
                    (tiny_http::Method::Post, ["v1", "client", "add-version", parent]) => {
                        if ctype.as_deref() != Some("application/vnd.taskchampion.history-segment") {
                            st.complaints.push(format!("add-version with content-type {ctype:?}"));
                        }
                        match Uuid::parse_str(parent) {
                            Err(_) => tiny_http::Response::empty(400).boxed(),
                            Ok(parent) => {
                                let latest = st.versions.last().map(|v| v.0);
                                if latest.is_none() || latest == Some(parent) {
                                    st.next += 1;
                                    let id = Uuid::from_u128(0xB77B_0000_0000_0000_0000_0000_0000_0000u128 + st.next as u128);
                                    st.versions.push((id, parent, body));
                                    let mut r = tiny_http::Response::empty(200).with_header(hdr("X-Version-Id", &id.to_string()));
                                    if let Some(u) = st.urgency {
                                        r = r.with_header(hdr("X-Snapshot-Request", u));
                                    }
                                    r.boxed()
                                } else {
                                    tiny_http::Response::empty(409).with_header(hdr("X-Parent-Version-Id", &latest.unwrap().to_string())).boxed()
                                }
                            }
                        }
                    }
                    (tiny_http::Method::Get, ["v1", "client", "get-child-version", parent]) => match Uuid::parse_str(parent) {
                        Err(_) => tiny_http::Response::empty(400).boxed(),
                        Ok(parent) => match st.versions.iter().find(|v| v.1 == parent) {
                            Some((id, p, b)) => tiny_http::Response::from_data(b.clone())
                                .with_header(hdr("Content-Type", "application/vnd.taskchampion.history-segment"))
                                .with_header(hdr("X-Version-Id", &id.to_string()))
                                .with_header(hdr("X-Parent-Version-Id", &p.to_string()))
                                .boxed(),
                            None => tiny_http::Response::empty(404).boxed(),
                        },
                    },
                    (tiny_http::Method::Post, ["v1", "client", "add-snapshot", version]) => {
                        if ctype.as_deref() != Some("application/vnd.taskchampion.snapshot") {
                            st.complaints.push(format!("add-snapshot with content-type {ctype:?}"));
                        }
                        match Uuid::parse_str(version) {
                            Ok(v) if st.versions.iter().any(|x| x.0 == v) => {
                                st.snapshots.push((v, body));
                                tiny_http::Response::empty(200).boxed()
                            }
                            _ => tiny_http::Response::empty(400).boxed(),
                        }
                    }
                    (tiny_http::Method::Get, ["v1", "client", "snapshot"]) => {
                        // the latest snapshot by chain position
                        let best = st
                            .snapshots
                            .iter()
                            .filter_map(|(v, b)| st.versions.iter().position(|x| x.0 == *v).map(|i| (i, v, b)))
                            .max_by_key(|(i, _, _)| *i);
                        match best {
                            Some((_, v, b)) => tiny_http::Response::from_data(b.clone())
                                .with_header(hdr("Content-Type", "application/vnd.taskchampion.snapshot"))
                                .with_header(hdr("X-Version-Id", &v.to_string()))
                                .boxed(),
                            None => tiny_http::Response::empty(404).boxed(),
                        }
                    }
                    _ => {
                        st.complaints.push(format!("unknown request {url}"));
                        tiny_http::Response::empty(404).boxed()
                    }
                };
                drop(st);
                let _ = req.respond(resp);
            }
        });
        HttpHarness {
            state,
            server,
            thread: Some(thread),
            url: format!("http://127.0.0.1:{port}"),
        }
    }
}

impl Drop for HttpHarness {
    fn drop(&mut self) {
        self.server.unblock();
        if let Some(t) = self.thread.take() {
            let _ = t.join();
        }
    }
}

// ---------------------------------------------------------------- backends

pub struct Backend {
    pub kind: BackendKind,
    pub handles: Vec<Box<dyn Server>>,
    pub root: Option<PathBuf>,
    pub store: Option<MemStore>,
    pub http: Option<HttpHarness>,
}

fn git_config(local: PathBuf, remote: Option<String>) -> ServerConfig {
    ServerConfig::Git {
        local_path: local,
        branch: "main".into(),
        local_only: remote.is_none(),
        remote,
        encryption_secret: SECRET.to_vec(),
        git_path: None,
    }
}

/// A prototype of an initialised git set-up (bare remote + clones), built once and copied for
/// every execution (so that the random salt, and with it the derived key, is shared).
fn git_proto(remote: bool) -> &'static PathBuf {
    static LOCAL: std::sync::OnceLock<PathBuf> = std::sync::OnceLock::new();
    static REMOTE: std::sync::OnceLock<PathBuf> = std::sync::OnceLock::new();
    let cell = if remote { &REMOTE } else { &LOCAL };
    cell.get_or_init(|| {
        taskchampion::server::verif::enable_key_memo(true);
        let root = fresh_dir("gitproto");
        let root2 = root.clone();
        // built on a thread of its own: the caller may already be inside this thread's runtime
        std::thread::spawn(move || {
        let root = root2;
        crate::util::block_on(async {
            if remote {
                let bare = root.join("remote.git");
                std::fs::create_dir_all(&bare).unwrap();
                let ok = std::process::Command::new("git").args(["init", "--bare", "-b", "main"]).current_dir(&bare).output().expect("git").status.success();
                assert!(ok, "git init --bare");
                // clone 0 initialises and publishes the repository (meta with the salt) by adding and
                // ... no: publishing needs a push, which only add_version does. Push the init commit.
                let s = git_config(root.join("clone0"), Some(bare.to_str().unwrap().into())).into_server().await.expect("git server");
                drop(s);
                let ok = std::process::Command::new("git").args(["push", bare.to_str().unwrap(), "main"]).current_dir(root.join("clone0")).output().expect("git").status.success();
                assert!(ok, "publishing the initial commit");
                let s = git_config(root.join("clone1"), Some(bare.to_str().unwrap().into())).into_server().await.expect("git server 2");
                drop(s);
            } else {
                let s = git_config(root.join("clone0"), None).into_server().await.expect("git server");
                drop(s);
            }
        });
        })
        .join()
        .expect("git prototype construction");
        root
    })
}

impl Backend {
    pub async fn new(kind: BackendKind, n: usize) -> Backend {
        taskchampion::server::verif::enable_key_memo(true);
        let mut b = Backend { kind, handles: vec![], root: None, store: None, http: None };
        match kind {
            BackendKind::Local => {
                b.root = Some(fresh_dir("local"));
            }
            BackendKind::GitLocal => {
                let root = fresh_dir("git");
                copy_dir(git_proto(false), &root);
                b.root = Some(root);
            }
            BackendKind::GitRemote => {
                let root = fresh_dir("gitr");
                copy_dir(git_proto(true), &root);
                b.root = Some(root);
            }
            BackendKind::GitRemoteFresh => {
                let root = fresh_dir("gitf");
                let bare = root.join("remote.git");
                std::fs::create_dir_all(&bare).unwrap();
                let ok = std::process::Command::new("git").args(["init", "--bare", "-b", "main"]).current_dir(&bare).output().expect("git").status.success();
                assert!(ok, "git init --bare");
                // both devices cloned the remote while it was still empty
                for c in ["clone0", "clone1"] {
                    let ok = std::process::Command::new("git").args(["clone", "-q", bare.to_str().unwrap(), c]).current_dir(&root).output().expect("git").status.success();
                    assert!(ok, "git clone of the empty remote");
                    for (k, v) in [("user.email", "taskchampion@local"), ("user.name", "taskchampion")] {
                        let _ = std::process::Command::new("git").args(["config", k, v]).current_dir(root.join(c)).output();
                    }
                }
                b.root = Some(root);
            }
            BackendKind::Cloud => {
                b.store = Some(cloud::new_store(2));
            }
            BackendKind::Http => {
                b.http = Some(HttpHarness::start());
            }
        }
        for h in 0..n {
            let s = b.open(h).await;
            b.handles.push(s);
        }
        b
    }

    /// Open (or re-open) handle number `h`.
    pub async fn open(&self, h: usize) -> Box<dyn Server> {
        match self.kind {
            BackendKind::Local => ServerConfig::Local { server_dir: self.root.clone().unwrap() }.into_server().await.expect("local server"),
            BackendKind::GitLocal => git_config(self.root.as_ref().unwrap().join("clone0"), None).into_server().await.expect("git server"),
            BackendKind::GitRemote | BackendKind::GitRemoteFresh => {
                let root = self.root.as_ref().unwrap();
                git_config(root.join(format!("clone{h}")), Some(root.join("remote.git").to_str().unwrap().into())).into_server().await.expect("git server")
            }
            BackendKind::Cloud => Box::new(cloud::client(self.store.as_ref().unwrap(), h, None, 255).await),
            BackendKind::Http => ServerConfig::Remote { url: self.http.as_ref().unwrap().url.clone(), client_id: client_id(), encryption_secret: SECRET.to_vec() }
                .into_server()
                .await
                .expect("sync server client"),
        }
    }

    pub async fn reopen(&mut self, h: usize) {
        let s = self.open(h).await;
        self.handles[h] = s;
    }

    /// Number of handles that make sense for this backend (git local-only: one working copy).
    pub fn max_handles(kind: BackendKind) -> usize {
        match kind {
            BackendKind::GitLocal => 1,
            _ => 2,
        }
    }
}

impl Drop for Backend {
    fn drop(&mut self) {
        self.handles.clear();
        if let Some(r) = &self.root {
            let _ = std::fs::remove_dir_all(r);
        }
    }
}
