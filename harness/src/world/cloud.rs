//! Helpers around the hooked object store: clients of the real CloudServer over a shared
//! MemStore, a scheduler gate, layout construction and a harness-side chain walker that only
//! looks at object names.

use crate::explore::sched::{GateH, Go};
use async_trait::async_trait;
use std::collections::BTreeMap;
use std::sync::Arc;
use taskchampion::server::verif::{Decision, Gate, MemStore, Request, VerifCloudServer};
use taskchampion::server::{AddVersionResult, GetVersionResult, Server};
use uuid::Uuid;

/// The encryption secret every harness client uses: an arbitrary byte string, deliberately with
/// leading/trailing whitespace and a non-UTF-8 byte (the documentation allows any bytes).
pub const SECRET: &[u8] = b" harness secret \xff\t\n";
pub const DAY: u64 = 86_400;

pub fn real_now() -> u64 {
    std::time::SystemTime::now().duration_since(std::time::UNIX_EPOCH).unwrap().as_secs()
}

/// Gate that parks every object-store request of one client at the scheduler.
pub struct SchedGate {
    pub gate: GateH,
    /// when true a put of a *new* version object is ordered before all in-flight listings
    pub front_puts: bool,
}

pub fn req_label(req: &Request) -> String {
    match req {
        Request::Get { name } => format!("get {}", short_name(name)),
        Request::Put { name, len } => format!("put {} ({len} bytes)", short_name(name)),
        Request::Del { name } => format!("del {}", short_name(name)),
        Request::ListPage { prefix, page } => format!("list {prefix}* page {page}"),
        Request::Cas { name, expected, new } => format!(
            "cas {} {} -> {}",
            short_name(name),
            expected.as_ref().map(|e| short_val(e)).unwrap_or("none".into()),
            short_val(new)
        ),
    }
}

fn short_val(v: &[u8]) -> String {
    let s = String::from_utf8_lossy(v);
    if s.len() == 32 {
        s[24..].to_string()
    } else {
        format!("<{} bytes>", v.len())
    }
}

/// Abbreviate uuids inside object names to their last 8 hex digits.
pub fn short_name(name: &str) -> String {
    let parts: Vec<&str> = name.split('-').collect();
    parts
        .iter()
        .map(|p| if p.len() == 32 { &p[24..] } else { p })
        .collect::<Vec<_>>()
        .join("-")
}

#[async_trait]
impl Gate for SchedGate {
    async fn before(&self, _client: usize, req: &Request) -> Decision {
        match self.gate.pass(req_label(req)).await {
            Go::Proceed => {
                if self.front_puts && matches!(req, Request::Put { name, .. } if name.starts_with("v-")) {
                    Decision::ProceedFront
                } else {
                    Decision::Proceed
                }
            }
            Go::FailBefore => Decision::FailBefore,
            Go::FailAfter => Decision::FailAfter,
        }
    }
}

pub fn new_store(page_size: usize) -> MemStore {
    taskchampion::server::verif::enable_key_memo(true);
    let s = MemStore::new(page_size, real_now());
    // a fixed salt, so that every client derives the same (memoised) key
    s.raw_put("salt", b"0123456789abcdef".to_vec(), real_now());
    s
}

/// A store that is brand new: not even the salt object exists (the first client creates it).
pub fn new_store_unsalted(page_size: usize) -> MemStore {
    taskchampion::server::verif::enable_key_memo(true);
    MemStore::new(page_size, real_now())
}

/// Like [`client`], but the requests of the constructor (salt lookup / creation) pass the gate too.
pub async fn client_gated(store: &MemStore, id: usize, gate: Option<Arc<dyn Gate>>, draw: u8) -> Result<VerifCloudServer, String> {
    let mut c = VerifCloudServer::new_gated(store.clone(), id, SECRET.to_vec(), gate).await.map_err(|e| format!("{e:#}"))?;
    c.set_draws(vec![], Some(draw));
    Ok(c)
}

/// A client whose random draws are fixed (255 = never clean up, urgency None when a snapshot
/// exists).
pub async fn client(store: &MemStore, id: usize, gate: Option<Arc<dyn Gate>>, draw: u8) -> VerifCloudServer {
    let mut c = VerifCloudServer::new(store.clone(), id, SECRET.to_vec()).await.expect("open object-store server");
    c.set_draws(vec![], Some(draw));
    c.set_gate(gate);
    c
}

/// Build a chain of `n` versions with payloads "base-k" through a setup client; returns ids.
pub fn build_chain(store: &MemStore, n: usize) -> Vec<Uuid> {
    taskchampion::server::verif::set_version_id_counter(Some(1));
    crate::util::block_on(async {
        let mut c = client(store, 99, None, 255).await;
        let mut parent = Uuid::nil();
        let mut ids = vec![];
        for k in 0..n {
            let (r, _) = c.add_version(parent, format!("base-{k}").into_bytes()).await.expect("setup add_version");
            let AddVersionResult::Ok(id) = r else { panic!("setup add_version rejected") };
            ids.push(id);
            parent = id;
        }
        ids
    })
}

pub fn version_name(parent: Uuid, child: Uuid) -> String {
    format!("v-{}-{}", parent.as_simple(), child.as_simple())
}

pub fn snapshot_name(v: Uuid) -> String {
    format!("s-{}", v.as_simple())
}

/// Parse `v-PARENT-CHILD`.
pub fn parse_version(name: &str) -> Option<(Uuid, Uuid)> {
    let rest = name.strip_prefix("v-")?;
    if rest.len() != 65 {
        return None;
    }
    Some((Uuid::parse_str(&rest[..32]).ok()?, Uuid::parse_str(&rest[33..]).ok()?))
}

pub fn parse_snapshot(name: &str) -> Option<Uuid> {
    Uuid::parse_str(name.strip_prefix("s-")?).ok()
}

/// What the store holds, by object names only.
#[derive(Debug, Clone, Default)]
pub struct Layout {
    pub latest: Option<Uuid>,
    /// child -> parents of all version objects with that child id
    pub versions: Vec<(Uuid, Uuid)>, // (parent, child)
    pub snapshots: Vec<Uuid>,
}

pub fn layout(store: &MemStore) -> Layout {
    let mut l = Layout::default();
    for (name, value, _, _) in store.dump() {
        if name == "latest" {
            l.latest = std::str::from_utf8(&value).ok().and_then(|s| Uuid::parse_str(s).ok());
        } else if let Some(pc) = parse_version(&name) {
            l.versions.push(pc);
        } else if let Some(v) = parse_snapshot(&name) {
            l.snapshots.push(v);
        }
    }
    l
}

impl Layout {
    /// The chain from `latest` back towards nil, as far as version objects exist:
    /// returns versions oldest-first and whether the walk reached nil.
    pub fn chain(&self) -> (Vec<(Uuid, Uuid)>, bool) {
        let mut by_child: BTreeMap<Uuid, Vec<Uuid>> = BTreeMap::new();
        for (p, c) in &self.versions {
            by_child.entry(*c).or_default().push(*p);
        }
        let mut out = vec![];
        let Some(mut cur) = self.latest else { return (out, true) };
        let mut guard = 0;
        while !cur.is_nil() {
            guard += 1;
            if guard > 1000 {
                break;
            }
            match by_child.get(&cur) {
                Some(ps) if ps.len() == 1 => {
                    out.push((ps[0], cur));
                    cur = ps[0];
                }
                _ => {
                    out.reverse();
                    return (out, false);
                }
            }
        }
        out.reverse();
        (out, true)
    }
}

/// Walk the chain from `from` with a fresh, ungated client; returns (version id, payload) list.
pub fn walk_from(store: &MemStore, from: Uuid, max: usize) -> Result<Vec<(Uuid, Vec<u8>)>, String> {
    crate::util::block_on(async {
        let mut c = client(store, 98, None, 255).await;
        let mut out = vec![];
        let mut cur = from;
        for _ in 0..max {
            match c.get_child_version(cur).await.map_err(|e| format!("walk: get_child_version failed: {e:#}"))? {
                GetVersionResult::NoSuchVersion => break,
                GetVersionResult::Version { version_id, parent_version_id, history_segment } => {
                    if parent_version_id != cur {
                        return Err(format!("walk: asked for the child of {cur} and got a version whose parent is {parent_version_id}"));
                    }
                    out.push((version_id, history_segment));
                    cur = version_id;
                }
            }
        }
        Ok(out)
    })
}

/// Hash of the whole store (names, values, creation times, listing order).
pub fn store_hash(store: &MemStore) -> u64 {
    // sealed values carry a random nonce: version and snapshot objects are identified by their
    // name (which contains the version id) and length, everything else by its content
    let d: Vec<(String, u64, u64, i64)> = store.dump().into_iter().map(|(n, v, c, r)| { let h = value_hash(&n, &v); (n, h, c, r) }).collect();
    crate::util::h64(&d)
}

fn value_hash(name: &str, v: &[u8]) -> u64 {
    if name.starts_with("v-") || name.starts_with("s-") {
        v.len() as u64
    } else {
        crate::util::h64(&v)
    }
}

/// Hash of what the answer to the request `label` (as produced by [`req_label`]) can depend on.
pub fn response_hash(store: &MemStore, label: &str) -> u64 {
    let mut it = label.split_whitespace();
    let kind = it.next().unwrap_or("");
    let name = it.next().unwrap_or("");
    match kind {
        "put" | "del" => 0,
        "get" | "cas" => {
            let v: Vec<u64> = store.dump().into_iter().filter(|(n, _, _, _)| short_name(n) == name).map(|(n, v, _, _)| value_hash(&n, &v)).collect();
            crate::util::h64(&(kind, v))
        }
        "list" => {
            let prefix = name.trim_end_matches('*');
            let v: Vec<(String, u64, i64)> = store.dump().into_iter().filter(|(n, _, _, _)| short_name(n).starts_with(prefix)).map(|(n, _, c, r)| (n, c, r)).collect();
            crate::util::h64(&("list", v))
        }
        _ => store_hash(store),
    }
}
