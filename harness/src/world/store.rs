//! A clonable replica store that is either the in-memory storage or a real SqliteStorage on a
//! scratch directory (cloned by closing, copying the directory and re-opening).

use async_trait::async_trait;
use std::path::PathBuf;
use std::sync::atomic::{AtomicU64, Ordering};
use taskchampion::storage::inmemory::InMemoryStorage;
use taskchampion::storage::{AccessMode, Storage, StorageTxn};
use taskchampion::SqliteStorage;

#[derive(Clone, Copy, Debug, PartialEq, Eq, serde::Serialize, serde::Deserialize)]
pub enum Kind {
    Mem,
    Sqlite,
}

pub enum Store {
    Mem(InMemoryStorage),
    Sql(SqlStore),
    /// placeholder left behind by `std::mem::take`
    Taken,
}

pub struct SqlStore {
    pub dir: PathBuf,
    pub st: Option<SqliteStorage>,
}

static NEXT: AtomicU64 = AtomicU64::new(0);

pub fn fresh_dir(tag: &str) -> PathBuf {
    let n = NEXT.fetch_add(1, Ordering::Relaxed);
    let p = crate::util::scratch_root().join(format!("{tag}-{n}"));
    std::fs::create_dir_all(&p).expect("scratch dir");
    p
}

pub fn copy_dir(from: &std::path::Path, to: &std::path::Path) {
    std::fs::create_dir_all(to).expect("mkdir");
    for e in std::fs::read_dir(from).expect("read_dir") {
        let e = e.expect("dirent");
        let p = e.path();
        let dest = to.join(e.file_name());
        if p.is_dir() {
            copy_dir(&p, &dest);
        } else {
            std::fs::copy(&p, &dest).expect("copy");
        }
    }
}

pub fn open_sqlite(dir: &std::path::Path) -> SqliteStorage {
    crate::util::block_on(SqliteStorage::new(dir, AccessMode::ReadWrite, true)).expect("open sqlite storage")
}

impl Store {
    pub fn fresh(kind: Kind) -> Store {
        match kind {
            Kind::Mem => Store::Mem(InMemoryStorage::new()),
            Kind::Sqlite => {
                let dir = fresh_dir("sql");
                let st = open_sqlite(&dir);
                Store::Sql(SqlStore { dir, st: Some(st) })
            }
        }
    }

    pub fn kind(&self) -> Kind {
        match self {
            Store::Mem(_) => Kind::Mem,
            _ => Kind::Sqlite,
        }
    }

    /// Close and re-open (SQLite only; a no-op for the in-memory store).
    pub fn reopen(&mut self) {
        if let Store::Sql(s) = self {
            s.st = None;
            s.st = Some(open_sqlite(&s.dir));
        }
    }
}

impl Default for Store {
    fn default() -> Self {
        Store::Taken
    }
}

impl Clone for Store {
    fn clone(&self) -> Store {
        match self {
            Store::Mem(m) => Store::Mem(m.clone()),
            Store::Sql(s) => {
                // all transactions are finished when a state is cloned; WAL content is copied too
                let dir = fresh_dir("sql");
                copy_dir(&s.dir, &dir);
                let st = open_sqlite(&dir);
                Store::Sql(SqlStore { dir, st: Some(st) })
            }
            Store::Taken => Store::Taken,
        }
    }
}

impl Drop for SqlStore {
    fn drop(&mut self) {
        self.st = None;
        let _ = std::fs::remove_dir_all(&self.dir);
    }
}

#[async_trait]
impl Storage for Store {
    async fn txn<'a>(&'a mut self) -> Result<Box<dyn StorageTxn + Send + 'a>, taskchampion::Error> {
        match self {
            Store::Mem(m) => m.txn().await,
            Store::Sql(s) => s.st.as_mut().expect("open").txn().await,
            Store::Taken => panic!("store was taken"),
        }
    }
}
