//! The harness-side `Server` implementation: the version-chain protocol of
//! docs/src/sync-protocol.md over an in-memory chain, with counter version ids, recording of
//! every plaintext segment and snapshot, scriptable snapshot urgency, per-request gates and
//! per-request fault injection.

use crate::explore::sched::{GateH, Go};
use async_trait::async_trait;
use std::collections::VecDeque;
use std::sync::atomic::{AtomicUsize, Ordering};
use std::sync::{Arc, Mutex};
use taskchampion::server::{
    AddVersionResult, GetVersionResult, HistorySegment, Server, Snapshot, SnapshotUrgency, VersionId,
};
use taskchampion::Error;
use uuid::Uuid;

type Result<T> = std::result::Result<T, Error>;

#[derive(Clone, Debug, PartialEq, Eq, Hash)]
pub struct Ver {
    pub id: Uuid,
    pub parent: Uuid,
    pub seg: Arc<Vec<u8>>,
    /// hash of `seg` (so that canonical forms need not rehash megabyte segments)
    pub h: u64,
}

#[derive(Clone, Debug, Default, PartialEq, Eq, Hash)]
pub struct ChainState {
    pub versions: Vec<Ver>,
    /// all snapshots ever accepted, in order of arrival (version, bytes)
    pub snapshots: Vec<(Uuid, Arc<Vec<u8>>)>,
    pub next_id: u32,
    /// versions up to and including this index are "discarded" (not served)
    pub discarded_upto: Option<usize>,
    /// number of add_version requests answered with ExpectedParentVersion (statistics only)
    pub rejections: u32,
}

pub fn vid(n: u32) -> Uuid {
    Uuid::from_u128(0xA000_0000_0000_0000_0000_0000_0000_0000u128 + n as u128)
}

impl ChainState {
    pub fn latest(&self) -> Option<Uuid> {
        self.versions.last().map(|v| v.id)
    }
    pub fn index_of(&self, id: Uuid) -> Option<usize> {
        self.versions.iter().position(|v| v.id == id)
    }
    pub fn segments_upto(&self, id: Uuid) -> Option<Vec<&[u8]>> {
        if id.is_nil() {
            return Some(vec![]);
        }
        let i = self.index_of(id)?;
        Some(self.versions[..=i].iter().map(|v| v.seg.as_slice()).collect())
    }
    pub fn all_segments(&self) -> Vec<&[u8]> {
        self.versions.iter().map(|v| v.seg.as_slice()).collect()
    }
}

/// How one request is to be answered (fault injection without a scheduler).
#[derive(Clone, Copy, Debug, PartialEq, Eq, serde::Serialize, serde::Deserialize)]
pub enum ServerFault {
    /// error, no effect
    ErrorBefore,
    /// effect, then the reply is lost (error returned)
    LostReply,
    /// the request never returns (process stop); the effect does NOT happen
    StopBefore,
    /// the effect happens, then the request never returns
    StopAfter,
}

#[derive(Default)]
pub struct ServerCtl {
    pub calls: AtomicUsize,
    pub fail_at: AtomicUsize,
    pub kind: Mutex<Option<ServerFault>>,
    pub log: Mutex<Vec<String>>,
    pub stopped: std::sync::atomic::AtomicBool,
    /// urgency answers for the next accepted versions; default when empty
    pub urgency: Mutex<(VecDeque<SnapshotUrgency>, Option<SnapshotUrgency>)>,
}

impl ServerCtl {
    pub fn new() -> Arc<Self> {
        let c = ServerCtl::default();
        c.fail_at.store(usize::MAX, Ordering::SeqCst);
        Arc::new(c)
    }
    pub fn arm(&self, at: usize, kind: ServerFault) {
        self.calls.store(0, Ordering::SeqCst);
        self.fail_at.store(at, Ordering::SeqCst);
        *self.kind.lock().unwrap() = Some(kind);
        self.stopped.store(false, Ordering::SeqCst);
    }
    pub fn reset_count(&self) {
        self.calls.store(0, Ordering::SeqCst);
        self.fail_at.store(usize::MAX, Ordering::SeqCst);
        self.log.lock().unwrap().clear();
    }
}

pub struct MServer {
    pub st: Arc<Mutex<ChainState>>,
    pub gate: GateH,
    pub ctl: Arc<ServerCtl>,
    /// name of the client (for logs)
    pub who: usize,
}

impl MServer {
    pub fn new(st: Arc<Mutex<ChainState>>, who: usize) -> Self {
        MServer {
            st,
            gate: GateH::none(),
            ctl: ServerCtl::new(),
            who,
        }
    }

    pub fn boxed(self) -> Box<dyn Server> {
        Box::new(self)
    }

    /// Pass gate and fault control for one request.
    async fn admit(&self, label: String) -> Admit {
        let k = self.ctl.calls.fetch_add(1, Ordering::SeqCst);
        self.ctl.log.lock().unwrap().push(label.clone());
        let go = self.gate.pass(label).await;
        let mut a = match go {
            Go::Proceed => Admit { effect: true, reply: true, hang_after: false },
            Go::FailBefore => Admit { effect: false, reply: false, hang_after: false },
            Go::FailAfter => Admit { effect: true, reply: false, hang_after: false },
        };
        if k == self.ctl.fail_at.load(Ordering::SeqCst) {
            match self.ctl.kind.lock().unwrap().unwrap_or(ServerFault::ErrorBefore) {
                ServerFault::ErrorBefore => {
                    a.effect = false;
                    a.reply = false;
                }
                ServerFault::LostReply => {
                    a.reply = false;
                }
                ServerFault::StopBefore => {
                    self.ctl.stopped.store(true, Ordering::SeqCst);
                    std::future::pending::<()>().await;
                }
                ServerFault::StopAfter => {
                    a.hang_after = true;
                }
            }
        }
        a
    }

    async fn after_effect(&self, a: &Admit) {
        if a.hang_after {
            self.ctl.stopped.store(true, Ordering::SeqCst);
            std::future::pending::<()>().await;
        }
    }
}

struct Admit {
    effect: bool,
    reply: bool,
    hang_after: bool,
}

fn lost() -> Error {
    Error::Server("injected: request failed / reply lost".into())
}

#[async_trait(?Send)]
impl Server for MServer {
    async fn add_version(
        &mut self,
        parent_version_id: VersionId,
        history_segment: HistorySegment,
    ) -> Result<(AddVersionResult, SnapshotUrgency)> {
        let a = self
            .admit(format!("add_version(parent={})", short(parent_version_id)))
            .await;
        if !a.effect {
            return Err(lost());
        }
        let res = {
            let mut st = self.st.lock().unwrap();
            match st.latest() {
                Some(l) if l != parent_version_id => {
                    st.rejections += 1;
                    (AddVersionResult::ExpectedParentVersion(l), SnapshotUrgency::None)
                }
                _ => {
                    st.next_id += 1;
                    let id = vid(st.next_id);
                    let h = crate::util::h64(&history_segment);
                    st.versions.push(Ver {
                        id,
                        parent: parent_version_id,
                        seg: Arc::new(history_segment),
                        h,
                    });
                    let mut u = self.ctl.urgency.lock().unwrap();
                    let urg = u.0.pop_front().or(u.1).unwrap_or(SnapshotUrgency::None);
                    (AddVersionResult::Ok(id), urg)
                }
            }
        };
        self.after_effect(&a).await;
        if !a.reply {
            return Err(lost());
        }
        Ok(res)
    }

    async fn get_child_version(&mut self, parent_version_id: VersionId) -> Result<GetVersionResult> {
        let a = self
            .admit(format!("get_child_version({})", short(parent_version_id)))
            .await;
        self.after_effect(&a).await;
        if !a.effect || !a.reply {
            return Err(lost());
        }
        let st = self.st.lock().unwrap();
        for (i, v) in st.versions.iter().enumerate() {
            if v.parent == parent_version_id && st.discarded_upto.is_none_or(|d| i > d) {
                return Ok(GetVersionResult::Version {
                    version_id: v.id,
                    parent_version_id: v.parent,
                    history_segment: v.seg.as_ref().clone(),
                });
            }
        }
        Ok(GetVersionResult::NoSuchVersion)
    }

    async fn add_snapshot(&mut self, version_id: VersionId, snapshot: Snapshot) -> Result<()> {
        let a = self.admit(format!("add_snapshot({})", short(version_id))).await;
        if !a.effect {
            return Err(lost());
        }
        self.st.lock().unwrap().snapshots.push((version_id, Arc::new(snapshot)));
        self.after_effect(&a).await;
        if !a.reply {
            return Err(lost());
        }
        Ok(())
    }

    async fn get_snapshot(&mut self) -> Result<Option<(VersionId, Snapshot)>> {
        let a = self.admit("get_snapshot".to_string()).await;
        self.after_effect(&a).await;
        if !a.effect || !a.reply {
            return Err(lost());
        }
        let st = self.st.lock().unwrap();
        // the latest snapshot by chain position
        let mut best: Option<(usize, &(Uuid, Arc<Vec<u8>>))> = None;
        for s in &st.snapshots {
            if let Some(i) = st.index_of(s.0) {
                if best.is_none_or(|(bi, _)| i >= bi) {
                    best = Some((i, s));
                }
            }
        }
        Ok(best.map(|(_, s)| (s.0, s.1.as_ref().clone())))
    }
}

pub fn short(u: Uuid) -> String {
    if u.is_nil() {
        "nil".into()
    } else {
        format!("{:x}", u.as_u128() & 0xffff_ffff)
    }
}
