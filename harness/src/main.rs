fn main() { println!("tcmc"); }
