#![allow(dead_code)]
mod explore;
mod model;
mod props;
mod util;
mod world;

use util::{Opts, Tier};

fn main() {
    // keep megabyte buffers on the heap free lists instead of mmap/munmap per allocation
    unsafe {
        libc::mallopt(libc::M_MMAP_THRESHOLD, 1 << 30);
        libc::mallopt(libc::M_TRIM_THRESHOLD, i32::MAX);
    }
    let args: Vec<String> = std::env::args().skip(1).collect();
    if args.is_empty() {
        eprintln!("usage: tcmc <property|selftest|replay> [--tier quick|thorough] [--replay file] [--budget secs]");
        std::process::exit(2);
    }
    if args[0] == "worker-c17" {
        std::process::exit(props::c17::worker(&args[1..]));
    }
    if args[0] == "worker-synckill" {
        std::process::exit(props::synckill::worker(&args[1..]));
    }
    if args[0] == "worker-c06" {
        std::process::exit(props::c06::worker(&args[1..]));
    }
    let cmd = args[0].to_uppercase();
    let mut tier = match std::env::var("VERIF_TIER").ok().as_deref() {
        Some("thorough") => Tier::Thorough,
        _ => Tier::Quick,
    };
    let mut replay = None;
    let mut budget: Option<f64> = None;
    let mut extra = vec![];
    let mut i = 1;
    while i < args.len() {
        match args[i].as_str() {
            "--tier" => {
                tier = if args.get(i + 1).map(|s| s.as_str()) == Some("thorough") { Tier::Thorough } else { Tier::Quick };
                i += 1;
            }
            "--replay" => {
                replay = args.get(i + 1).map(std::path::PathBuf::from);
                i += 1;
            }
            "--budget" => {
                budget = args.get(i + 1).and_then(|s| s.parse().ok());
                i += 1;
            }
            other => extra.push(other.to_string()),
        }
        i += 1;
    }
    let seed = std::env::var("VERIF_SEED").ok().and_then(|s| s.parse().ok()).unwrap_or(0);
    let opts = Opts {
        tier,
        seed,
        replay,
        // wall-clock caps inside the engines (what is cut is reported as capped / exhaustive:false);
        // generous, so that a loaded machine does not silently drop the tail of a check
        budget_s: budget.unwrap_or(match (tier, cmd.as_str()) {
            (Tier::Quick, "C08") | (Tier::Quick, "C11") => 150.0,
            (Tier::Quick, _) => 90.0,
            _ => 900.0,
        }),
        extra,
    };
    // deterministic environment for git
    std::env::set_var("GIT_CONFIG_NOSYSTEM", "1");
    std::env::set_var("HOME", "/nonexistent-home-for-tcmc");
    std::env::set_var("GIT_TERMINAL_PROMPT", "0");
    // panics of the code under test are caught and turned into findings; do not flood stderr
    if std::env::var("TCMC_PANIC_TRACE").is_err() {
        static SHOWN: std::sync::atomic::AtomicUsize = std::sync::atomic::AtomicUsize::new(0);
        std::panic::set_hook(Box::new(|info| {
            // remember where the panic came from: one inside the library under test is a finding,
            // one inside the harness is a machinery error
            let loc = info.location().map(|l| format!("{}:{}", l.file(), l.line())).unwrap_or_default();
            util::LAST_PANIC.with(|c| *c.borrow_mut() = Some((loc, info.to_string().chars().take(300).collect())));
            if SHOWN.fetch_add(1, std::sync::atomic::Ordering::Relaxed) < 3 {
                let msg: String = info.to_string().chars().take(300).collect();
                eprintln!("(panic) {msg}");
            }
        }));
    }
    let code = std::panic::catch_unwind(|| dispatch(&cmd, &opts));
    util::cleanup_scratch();
    match code {
        Ok(c) => std::process::exit(c),
        Err(_) => {
            eprintln!("MACHINERY ERROR: engine panicked");
            std::process::exit(3);
        }
    }
}

pub fn dispatch(cmd: &str, opts: &Opts) -> i32 {
    if let Some(p) = &opts.replay {
        return props::replay_file(p);
    }
    match cmd {
        "C01" => props::c01::run(opts),
        "C02" => props::c02::run(opts),
        "C03" => props::c03::run(opts),
        "C04" => props::c04::run(opts),
        "C05" => props::c05::run(opts),
        "C06" => props::c06::run(opts),
        "C07" => props::c07::run(opts),
        "C15" => props::c15::run(opts),
        "C16" => props::c16::run(opts),
        "C17" => props::c17::run(opts),
        "C18" => props::c18::run(opts),
        "C19" => props::c19::run(opts),
        "C20" => props::c20::run(opts),
        "C08" => props::c08::run(opts),
        "C09" => props::c09::run(opts),
        "C10" => props::c10::run(opts),
        "C11" => props::c11::run(opts),
        "C12" => props::c12::run(opts),
        "C13" => props::c13::run(opts),
        "C14" => props::c14::run(opts),
        _ => {
            eprintln!("unknown command {cmd}");
            2
        }
    }
}
