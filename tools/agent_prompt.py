#!/usr/bin/env python3
"""Print the prompt given to a mutation sub-agent for one property (only the property text + worktree)."""
import json, sys
pid = sys.argv[1]; wt = sys.argv[2]
for l in open('/verif/properties.jsonl'):
    p = json.loads(l)
    if p['id'] == pid: break
else: sys.exit('no such property')
print(f"""You are helping test a verification effort for the Rust library taskchampion (GothenburgBitFactory/taskchampion: Taskwarrior's task storage and replica sync library).

You have your own scratch git worktree of the repository at {wt} (detached HEAD). Work ONLY inside {wt}. Never touch /repo or /verif, never read anything under /verif. The sandbox has no network; always pass --offline to cargo. To avoid recompiling all dependencies, first run: cp -r /repo/target {wt}/target   (then build/test inside {wt}).

Here is a semantic property of the library that is supposed to hold:

Property {p['id']}: {p['title']}
Statement: {p['statement']}
Quantified over: {p['quantifier']['text']}

Your task: produce ONE realistic change (a bug a maintainer could plausibly introduce in a refactor or optimisation) to the library's source under {wt}/src that BREAKS this property, while
 (a) the crate still compiles without new warnings-as-errors, and
 (b) the ENTIRE existing test suite still passes: `cd {wt} && cargo test --workspace --no-fail-fast --offline` (the integration test `sync_server_tls` fails already on the unchanged tree because it needs the network; ignore that one only). You MUST actually run the full suite with your change applied and confirm this.
Do not edit, add or delete existing tests. Do not change public API signatures.

The change must need something SPECIFIC to manifest — e.g. a particular interleaving of requests, a crash or fault at a particular point, a multi-step sequence of operations, an unusual input/value, or two cooperating code sites that each look fine alone — NOT something ordinary use would expose at once (if any trivial use of the library shows the bug, the existing tests would catch it and it is not interesting). Prefer subtle over blatant. Keep the diff small (typically 1-15 lines).

Also write a demonstration: a NEW integration test file {wt}/tests/demo_{p['id'].lower()}.rs (using only the crate's public API plus dev-dependencies already in Cargo.toml: tempfile, rstest, pretty_assertions, libc, tokio, proptest, httptest) — or, if the public API cannot reach it, a small new #[cfg(test)] test module in a NEW file under src/ wired in with one `#[cfg(test)] mod` line — that FAILS with your change applied and PASSES on the unchanged tree. Verify both directions yourself (use `git stash` or `git diff > /tmp/x.diff; git checkout -- src` to flip).

Deliverables, written into {wt}/deliver/ :
  - patch.diff : `git diff` of the src/ change only (NOT including the demo), relative to the repository root, applicable with `git apply`.
  - the demo test file (copy), and if it needed a `mod` line, a demo_wiring.diff with just that.
  - notes.md : what the change is, why it breaks the property, exactly what is needed for it to manifest, and the exact commands you ran with their pass/fail results (full-suite result with the change; demo result with and without the change).
Finally leave the worktree with the src change REVERTED (git checkout -- src) but deliver/ in place. Reply with a short summary (the content of notes.md).""")
