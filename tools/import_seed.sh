#!/bin/bash
# usage: tools/import_seed.sh <property> <suffix> [worktree]
# Takes a sub-agent's deliverables into seeded/<property>-<suffix>/, removes its scratch worktree,
# and confirms the seed in a fresh scratch worktree (tools/confirm_seed.sh).
p=$1; suf=$2; wt=${3:-/tmp/wt5-$p}
d=/verif/seeded/$p-$suf
mkdir -p $d
cp $wt/deliver/patch.diff $d/ || exit 2
cp $wt/deliver/demo_*.rs $d/ 2>/dev/null
cp $wt/deliver/demo_wiring.diff $d/ 2>/dev/null
cp $wt/deliver/notes.md $d/ 2>/dev/null
git -C /repo worktree remove --force $wt; rm -rf $wt
/verif/tools/confirm_seed.sh $p-$suf $p
