#!/bin/bash
# usage: tools/confirm_seed.sh <seed-dir-name> <property-id>
# Confirms a seeded change in a scratch worktree: patch applies, whole suite passes with it
# (except the network-only sync_server_tls), demo fails with it and passes without it.
seed=$1; prop=$2
S=/verif/seeded/$seed
WT=/tmp/cw-$seed
git -C /repo worktree add -q --detach $WT HEAD || exit 2
cp -r /repo/target $WT/target
cd $WT
demo=$(ls $S/demo_*.rs 2>/dev/null | head -1)
res_suite="n/a"; res_demo_with="n/a"; res_demo_without="n/a"
git apply $S/patch.diff || { echo "PATCH DOES NOT APPLY"; git -C /repo worktree remove --force $WT; exit 2; }
cargo nextest run --workspace --no-fail-fast --offline --test-threads 8 > $S/.suite.log 2>&1
res_suite=$(grep -E "^\s+Summary" $S/.suite.log | sed 's/^ *//')
failed=$(grep -E "^\s+FAIL " $S/.suite.log | awk '{print $NF}' | sort -u | tr '\n' ' ')
if [ -n "$demo" ]; then
  name=$(basename $demo .rs)
  if [ -f $S/demo_wiring.diff ]; then
    # in-crate demo: the wiring diff names the module; the file goes next to the module it extends
    target=$(grep -E "^\+\+\+ b/" $S/demo_wiring.diff | head -1 | sed 's#+++ b/##; s#\.rs$##')
    # a module declared in a mod.rs lives next to it, one declared in x.rs lives in x/
    if [ "$(basename $target)" = "mod" ] || [ "$(basename $target)" = "lib" ]; then target=$(dirname $target); fi
    mkdir -p $target; cp $demo $target/$name.rs
    git apply $S/demo_wiring.diff
    cargo test --offline --lib $name > $S/.demo_with.log 2>&1; res_demo_with=$?
    git apply -R $S/patch.diff
    cargo test --offline --lib $name > $S/.demo_without.log 2>&1; res_demo_without=$?
  else
    cp $demo tests/
    cargo test --offline --test $name > $S/.demo_with.log 2>&1; res_demo_with=$?
    git apply -R $S/patch.diff
    cargo test --offline --test $name > $S/.demo_without.log 2>&1; res_demo_without=$?
  fi
fi
cd /verif
git -C /repo worktree remove --force $WT
python3 - "$S" "$prop" "$res_suite" "$failed" "$res_demo_with" "$res_demo_without" <<'PY'
import json,sys,os
S,prop,suite,failed,dw,dwo=sys.argv[1:7]
meta={"breaks_property":prop,"suite_with_change":suite,"suite_failures_with_change":failed.split(),
 "demo_exit_with_change":dw,"demo_exit_without_change":dwo,
 "confirmed": (failed.split() in ([],["sync_server_tls"])) and dw not in ("0","n/a") and dwo=="0",
 "ran":["git worktree add /tmp/cw-<seed> HEAD; git apply patch.diff","cargo nextest run --workspace --no-fail-fast --offline","cargo test --offline --test demo_* (with and without the change)"]}
old={}
if os.path.exists(S+"/meta.json"): old=json.load(open(S+"/meta.json"))
old.update(meta); json.dump(old,open(S+"/meta.json","w"),indent=1)
print(S, json.dumps(meta))
PY
rm -f $S/.suite.log $S/.demo_with.log $S/.demo_without.log
