#!/usr/bin/env python3
"""Regenerate /verif/MANIFEST.json from the table below (checks that exist) and properties.jsonl."""
import json, subprocess
props = [json.loads(l) for l in open('/verif/properties.jsonl')]
ids = [p['id'] for p in props]

# id -> (level, engine, technique, level text, level note, design ref)
CHECKS = {
 "C01": ("model_checking", "E-STATE", "explicit-state depth-bounded search (iterative deepening) over real Replica/InMemoryStorage objects against a harness chain server; chain-replay reference model on every state; plus every interleaving of two replicas syncing at once (controlled scheduler) and one scenario with pending lists of 1500 and 1200 small operations",
         "Every history of create/update/delete/1MB-update/sync actions up to the depth bound, for 2, 3 and 4 replicas, is executed on the real code; on every reachable state the replica invariant, quiescence convergence and equality with the replay of the server chain are evaluated. Spaces also cover multi-operation commits, updates recorded with a wrong old value, and commits containing operations that are invalid where they stand (the recorded finding of known_findings.json is tolerated there, everything else in that space is checked). From every state of a small two-replica space both replicas also sync at once under every interleaving of their server requests. Exhaustive within the stated alphabet and depth, which is what a universally quantified history property needs and no sampled test gives.",
         "alphabet: 1-2 tasks, properties p/q/f, values a/b/absent, timestamps {1,2}s, one 1 000 001-byte value; depth 7-10; harness server = docs/src/sync-protocol.md", "5/C01"),
 "C03": ("model_checking", "E-STATE (families)", "exhaustive enumeration of concurrent operation sequences x every sync order (and, for pairs, every interleaving of overlapping syncs) on real replicas; documented-winner oracle + order-independence differential",
         "All pairs and triples of valid local operation sequences (length <=2, thorough <=3) on a common base, each synced in every possible order, then quiesced; the converged state must be the documented winner and identical for all orders.",
         "alphabet of 11 operations over 3 tasks / 2 properties / timestamps {1,2}; where the prose is silent only convergence, order independence and no-invented-value are asserted", "5/C03"),
 "C02": ("model_checking", "E-SCHED on E-STATE states", "controlled scheduler over real Replica::sync futures: every interleaving of individual server requests (pairs exhaustively, triples preemption-bounded) from every distinct prior state of the C01 space; the same for two whole syncs racing through the real local / object-store / git backends",
         "From every reachable prior state with >=2 replicas that have something to sync, every subset of >=2 replicas runs the real sync concurrently; each Server trait call parks at a gate and the explorer enumerates all release orders. Oracle: every sync Ok (never OutOfSync), replica invariant, quiescence convergence = chain replay. The rejection/retry path that no test executes is reached in thousands of distinct outcomes. State-key pruning is self-checked against the unpruned search. Two whole syncs also race through real backends (local SQLite server, object store; thorough: git with a remote), each replica on its own handle.",
         "one Server request is atomic at the harness server; prior depth 4-6, triples preemption bound 2 (thorough 3)", "5/C02"),
 "C05": ("model_checking", "E-DIFF + E-FAULT", "exhaustive batch enumeration executed in lock step on the real Replica (in-memory and SQLite) against a reference operation model, batch-vs-single differential, and an injected error at every storage call index, including one batch of 1200 (thorough 5000) operations",
         "Every batch up to length 4-5 over creates/updates/removals/deletes/undo points on two tasks, valid or not, from 20 prior states (unsynced and synced), is committed through Replica::commit_operations and compared with the documented one-at-a-time semantics, with one-at-a-time commits on a clone, with the expected operation log and with base+pending; for every storage call of the commit an injected failure must leave the observable state unchanged.",
         "SQLite with shorter batches (2-3) because each case re-opens a database; string domain tiny", "5/C05"),
 "C07": ("model_checking", "E-STATE", "explicit-state search over commit/undo/stale-undo/sync histories on real replicas (both storages) with a harness-kept image of the task set at every undo point; spans without changes (lone undo points); on every state repeated undo down to the last sync is executed; one undo span of 1200 (thorough 6000) operations",
         "Every history up to depth 6-9 of single-change commits (with/without undo point, made with the real TaskData API), undo, stale undo, undo after sync and sync, from empty and populated replicas; after each undo the exact earlier task set, the exact remaining unsynchronized list and the result flag are asserted, and the next sync's versions must equal the documented conversion of what remains.",
         "lone-UndoPoint edge not asserted; one replica; SQLite depth 3-6", "5/C07"),
 "C15": ("model_checking", "E-STATE", "explicit-state search over status/purge/rebuild/undo/remote-sync histories on real replicas (both storages) with the statement's working-set obligations as oracle after every rebuild and commit (statuses incl. recurring and an unknown one; one working set of 300 / 1500 tasks)",
         "Every history up to depth 5-9 over 3-4 tasks; gaps and entries whose task vanished arise by construction (purge, remote completion/deletion through a real second replica and sync); after every rebuild the working set must contain exactly the pending/recurring tasks once each, slot 0 empty, numbers stable without renumbering, 1..n in order with renumbering.",
         "'after all numbers in use' is read as 'greater than every surviving number'", "5/C15"),
 "C18": ("exploration", "exhaustive sweep", "exhaustive enumeration of stored task maps (singles, pairs, reduced triples over edge keys x edge values) with every public read accessor called under panic capture on the real Replica/Task/TaskData/WorkingSet/DependencyMap",
         "Every (key,value) entry over 28 recognised keys/prefixes x 22 edge values, every pair with a status/wait/modified/start entry (thorough: all pairs) and all triples of a reduced alphabet are stored through real operations (singles also through a sync into a second replica) and then every public reader is invoked; any panic is a violation. This is an input sweep, not a state search, hence 'exploration'.",
         "string domain is the listed edge values; a second well-formed pending task depending on the subject is always present", "5/C18"),
 "C19": ("model_checking", "E-STATE + E-DIFF", "explicit-state search over editing sessions of real Task mutators in lock step with a task model (recorded operations incl. old values, held object, usage errors), storage comparison at every commit, recomputation of synthetic tags and dependency map after every store, read both through a fresh Replica and through the Replica that made the commit with a warm cache",
         "Every history up to depth 5-8 over open-session / mutator call / commit+reload / low-level TaskData edits of the task and of its dependency target / rebuild, from four stored prior states (absent, pending, completed+end+dependency, status/end disagreeing).",
         "clock values abstracted to NOW and window-checked; argument domains are single representative values per mutator", "5/C19"),
 "C20": ("exploration", "exhaustive sweep + sync orders", "exhaustive sweep of status x modification-time values through the real Replica::expire_tasks on both storages, then every sync order - and every interleaving of overlapping syncs - of an expiring replica against concurrently editing replicas",
         "All 8 status values x 20 modification-time values (boundaries of the 180-day threshold, missing, non-numeric, out of range in both directions, i64 extremes), alone and together, on in-memory and SQLite; then every expirable task x 4 concurrent edits x 2-3 replicas x every sync order; the purged task must be gone everywhere and nothing else touched.",
         "boundary values are >= 2 s (old side) / 60 s (new side) away from the threshold because the clock is real", "5/C20"),
 "C09": ("model_checking", "E-SCHED", "controlled scheduler over real CloudServer clients on one in-memory object store; every get/put/del/compare-and-swap and every list page is a scheduling point; stateless DFS with iterative preemption bounding and self-checked state-key pruning; replay-divergence check on every prefix; scenarios on a brand-new store include the constructors' salt requests",
         "2-4 clients run add/add-two/walk/add+snapshot programs against the real CloudServer; pairs are explored over all interleavings, triples within preemption bound 3 (thorough: all), the quadruple within bound 4; start layouts include leftover loser objects. The oracle uses only call results, the sequence of values 'latest' took and object names.",
         "in-memory Service obeys the Service trait contract; page sizes 1 and 2; cleanup disabled here (C10)", "5/C09"),
 "C10": ("model_checking", "E-SCHED + truncation", "controlled scheduler over cleanup vs add_version/add_snapshot/cleanup parties on every small object-store layout, preemption bound 2 (thorough 3), plus stopping the cleanup before any of its deletions and failing any page of its listings",
         "Every chain length 0..3(4) x snapshot subset x age pattern x orphan kind is the start layout; the cleanup is entered through the real add_version->maybe_cleanup path (draw forced by hook) or explicitly; all interleavings within the bound at request/list-page granularity; consequence-form oracle evaluated by a fresh client.",
         "deletion order of redundant snapshots is fixed to sorted order by a hook (hash-set order cannot be enumerated); version ids are counter-based under the hook", "5/C10"),
 "C04": ("fault_enumeration", "E-FAULT on E-STATE states", "call-indexed fault enumeration: one fault at every StorageTxn call index and every Server request of a real Replica::sync, from every distinct prior state of the C01 space, on in-memory and SQLite storage; the same for a sync that changes the working set, then simply repeated; plus SIGKILL of a child process running the whole sync of a SQLite replica against the on-disk local server at its write syscalls (strace fault injection)",
         "For every reachable prior state (2-3 replicas, incl. multi-version syncs) and every replica with something to sync, the sync is run once per (interruption point, fault kind): storage error, process stop at a storage call, server error before effect, effect then lost reply, stop before/after the server's effect. Afterwards every replica must satisfy the replica invariant, quiescence must succeed and converge to a fault-free result.",
         "one fault per sync; process stop = future dropped and the storage re-read (SQLite: closed and re-opened); SQLite on a subset of states", "5/C04"),
 "C06": ("fault_enumeration", "E-FAULT + E-KILL", "abandonment at every storage call index of real replica actions on SqliteStorage, and SIGKILL of a child process at the entry of every write-class syscall (strace fault injection), with a before/after-state oracle on the directory re-opened read-only and then read-write; also for an undo span of 1200 operations",
         "Commit, undo, both rebuild modes and sync on two prior SQLite replicas: (1) every storage call fails or is the point where the future is dropped and the handle closed; (2) a child performing the action is killed at every pwrite64/write/fsync/fdatasync/ftruncate/unlink (quick: every 5th point), including the checkpoint on close after the action was acknowledged. The re-opened store must be exactly before or exactly after, and after whenever the action had returned.",
         "process-kill semantics (page cache survives); SQLite's own recovery trusted; quick tier subsamples the kill points", "5/C06"),
 "C08": ("model_checking", "E-DIFF over backends", "exhaustive enumeration of Server call sequences up to a depth on fresh instances of every backend, in lock step with the reference chain model; 2-3 object-store handles connecting to a brand-new store at once and two whole syncs racing through the local / object-store / git backends under the controlled scheduler; replica-level histories through every backend",
         "All sequences of d calls (add_version with nil/latest/stale/unknown parents and empty/all-byte-values/300 KB payloads, get_child_version, add_snapshot, get_snapshot, re-open) from 1-2 handles on: local; git local-only; git with a shared bare remote and two clones; the real CloudServer over the in-memory object store; the real HTTP client against a harness server written from docs/http.md.",
         "depth 4 (object store), 3 (local), 2 (HTTP, git) in the quick tier because every git call costs several processes and process creation does not scale in this sandbox; AWS/GCP adapters and a real sync server are not reachable offline", "5/C08"),
 "C11": ("fault_enumeration", "E-FAULT", "fault at every internal step of add_version / add_snapshot of the local (failpoints), object-store (every request) and git (every git command and file write) backends x {error, effect-then-error, process stop} x {restart, keep handle} x {interrupted replica first, other replica first}, followed by continued syncs of the interrupted and other replicas; plus SIGKILL of a child process running a whole sync of a SQLite replica against the on-disk local server at each of its write syscalls (strace fault injection), three start situations",
         "After the single fault the interrupted replica syncs again, another replica commits and syncs, both sync again, a new replica syncs; all must succeed, all replicas must be identical and contain both changes, the chain served to a fresh handle must replay to that state, and a stale-parent probe must be rejected naming the latest.",
         "git with a shared remote: quick tier = the commit-to-push window and stops with staged files with a short continuation, thorough tier = every step; a 'stop' at a failpoint unwinds the stack (equivalent to what SQLite/git see after a process exit at that point)", "5/C11"),
 "C13": ("exploration", "exhaustive sweep", "exhaustive tamper/mismatch/truncation sweep of sealed values against an independent implementation of the documented scheme (ring primitives, RFC-vector self-check), plus inspection of what the three remote backends store, byte-flipping of stored versions and byte-flipping + every truncation of the stored snapshot in its real stored form",
         "Every single-byte modification (all 255 values), every truncation, every secret/salt/version-id mismatch must be rejected; crate-sealed values must open under the documented derivation/AAD/envelope and model-sealed values must open in the crate; HTTP bodies, object-store objects and git files are opened with the documented salt and AAD and flipped byte-by-byte and read back through the Server.",
         "randomness quality of nonces is not decidable by enumeration (only distinctness over the run); 64 KB payload: all 255 values at both ends, two values elsewhere", "5/C13"),
 "C16": ("model_checking", "E-DIFF", "exhaustive enumeration of StorageTxn call scripts executed in lock step on InMemoryStorage and SqliteStorage with every return value and the full observation after every transaction end and after re-open compared; breadth-first graph of states reachable by whole transactions; many-rows prefix; legacy-schema databases built by raw SQL; read-only handles",
         "Every script of d calls over 24-38 calls (commit, abandon, close+re-open included), also after a populated committed prefix; databases created under schemas 0.8, 0.9, (0,1), (0,2) with pre-loaded content are upgraded and compared; every mutator and commit on a read-only handle must fail and change nothing.",
         "documented contract restrictions (set_working_set_item only inside the working set, no call after commit); error messages not compared", "5/C16"),
 "C17": ("model_checking", "E-SCHED with lock probe", "controlled scheduler over real SqliteStorage handles (own actor threads) on one directory: every StorageTxn call is a scheduling point, a transaction may start only when a harness probe connection finds the write lock free; all interleavings executed (programs incl. a whole sync, a 1200-operation commit, writing back a value read earlier; some handles in child processes); audit by a fresh handle",
         "2-6 handles run commit / read-modify-write / re-open / commit+undo / rebuild / read programs; because the code's real BEGIN IMMEDIATE locking decides which interleavings exist, a change that splits an action over two transactions or defers the lock widens the explored space automatically.",
         "OS-thread preemption inside the actor thread and inside SQLite is not enumerated; separate processes are represented by separate handles/threads", "5/C17"),
 "C12": ("model_checking", "E-STATE", "explicit-state search with snapshot urgency and avoid_snapshots as enumerated environment answers; independent snapshot decoder + chain-replay model; fresh replica from snapshot on every state; the snapshot oracle also at the end of every interleaving of racing syncs",
         "Every history (incl. multi-version syncs and odd Unicode strings) x every urgency answer; each uploaded snapshot is decoded independently and compared with the chain replay at exactly its version; on every state a new replica is started from the latest snapshot against a server that discarded the earlier versions.",
         "snapshot => urgency>=threshold is asserted (the statement's 'only when'); the converse is counted, not asserted; one 2000-task (thorough 20000) scenario stands for 'thousands of tasks'", "5/C12"),
 "C14": ("model_checking", "E-STATE + sweep", "explicit-state search observing every transmitted version through a strict documented-format parser; exhaustive grammar sweep of foreign documents fed to fresh replicas",
         "Every version sent in every explored history is validated field-by-field against the documented format and, when nothing was pulled, against the documented conversion of the pending list; every document of a grammar of other implementations' output (field orders, timestamp precisions, escapes, separators) is applied by a fresh replica and compared with the model.",
         "the {\"operations\":[...]} wrapper is taken as the format (docs show a bare array; the property's anchors name the wrapper)", "5/C14"),
}

NOT_YET = "check not built yet in this round (design exists in DESIGN.md section 5); will be claimed once its engine lands"

checks = []
for i in ids:
    if i not in CHECKS: continue
    level, engine, technique, text, note, ref = CHECKS[i]
    checks.append({
        "property_id": i,
        "quick_cmd": f"./check {i} --tier quick",
        "thorough_cmd": f"./check {i} --tier thorough",
        "evidence_file": f"/verif/evidence/{i}.json",
        "replay_cmd_template": f"./check {i} --replay {{path}}",
        "engine": engine,
        "level_claimed": {"category": level, "text": text, "design_ref": f"DESIGN.md section {ref}"},
        "level_note": note,
        "technique": technique,
    })
hooks = subprocess.run(["git","-C","/repo","log","--format=%h %s"],capture_output=True,text=True).stdout.splitlines()
hook_commits = [l.split()[0] for l in hooks if l.split(' ',1)[1].startswith("verif hooks")]
m = {
  "version": 1,
  "setup_cmd": "cd /verif/harness && cargo build --release --offline",
  "hooks": {
    "guard": "--cfg gothenburgbitfactory_taskchampion_verif",
    "enable": "rustflags in /verif/harness/.cargo/config.toml; the harness depends on /repo by path, so every ./check rebuilds /repo's current working tree with the hooks on",
    "baseline_off_cmd": "cd /repo && cargo nextest run --workspace --no-fail-fast --offline --test-threads 8",
    "source_commits": hook_commits[::-1],
    "add_only": True,
  },
  "engines": [
    {"name": "E-STATE", "path": "harness/src/explore/state.rs", "serves_properties": ["C01","C03","C05","C07","C12","C14","C15","C19"], "kind_free_text": "explicit-state depth-bounded DFS with iterative deepening over real objects, canonical-key dedup, rayon-parallel"},
    {"name": "E-FAULT", "path": "harness/src/world/proxy.rs", "serves_properties": ["C04","C05","C06","C11"], "kind_free_text": "call-indexed fault enumeration: recording run numbers every StorageTxn call / Server request / object-store request / named failpoint, then one run per (point, fault kind)"},
    {"name": "E-KILL", "path": "harness/src/props/c06.rs", "serves_properties": ["C04","C06","C11"], "kind_free_text": "child process under strace -e inject=<syscall>:signal=KILL:when=<n>, one run per write-class syscall of an uninjected trace"},
    {"name": "E-DIFF", "path": "harness/src/props/c16.rs", "serves_properties": ["C05","C08","C16"], "kind_free_text": "lock-step differential of two implementations / implementation vs reference model on every call of every enumerated script"},
    {"name": "E-SCHED", "path": "harness/src/explore/sched.rs", "serves_properties": ["C02","C09","C10","C17"], "kind_free_text": "controlled scheduler over real futures: one runnable task at a time, stateless DFS over choice prefixes with iterative deviation (preemption/fault) bounding"},
  ],
  "checks": checks,
  "notes": "All checks: exit 0 = held on everything explored (KNOWN-FINDING lines allowed), exit 1 + VIOLATION line, exit >=2 machinery failure. Known findings: /verif/known_findings.json.",
  "not_applicable": [{"property_id": i, "reason": NOT_YET} for i in ids if i not in CHECKS],
}
json.dump(m, open('/verif/MANIFEST.json','w'), indent=1)
print("checks:", [c["property_id"] for c in checks])
