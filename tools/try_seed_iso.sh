#!/bin/bash
# usage: tools/try_seed_iso.sh <seed-dir> <tier> <ID> [<ID>...]
# Like try_seed.sh but never touches /repo: the patch is applied to a scratch worktree of /repo's
# HEAD, a copy of the harness is pointed at it and built in its own (pre-warmed) target directory,
# so several seeds can be tried at the same time. Everything is removed afterwards.
seed=$1; tier=$2; shift 2
WT=/tmp/ts-$seed; H=/dev/shm/ts-$seed
cleanup() { git -C /repo worktree remove --force $WT 2>/dev/null; rm -rf $WT $H; }
trap cleanup EXIT
git -C /repo worktree add -q --detach $WT HEAD || exit 2
( cd $WT && git apply "/verif/seeded/$seed/patch.diff" ) || { echo "patch does not apply"; exit 2; }
mkdir -p $H && cp -r /verif/harness $H/harness && cp -r /verif/target $H/target
sed -i "s#path = \"/repo\"#path = \"$WT\"#" $H/harness/Cargo.toml
sed -i "s#target-dir = .*#target-dir = \"$H/target\"#" $H/harness/.cargo/config.toml
( cd $H/harness && CARGO_NET_OFFLINE=true cargo build --release --offline >$H/build.log 2>&1 ) || { echo "== seed=$seed BUILD FAILED"; tail -20 $H/build.log; exit 2; }
export TCMC_OUT_DIR=$H/out TCMC_SUBJECT_DIR=$WT
cd /verif
for id in "$@"; do
  out=$($H/target/release/tcmc "$id" --tier "$tier" $TCMC_EXTRA_ARGS 2>&1); code=$?; [ -n "$TCMC_KEEP_LOG" ] && echo "$out" > /dev/shm/trylog-$seed-$id.txt
  echo "== seed=$seed check=$id tier=$tier exit=$code"
  echo "$out" | grep -E "VIOLATION|KNOWN-FINDING|MACHINERY|^violation|^OK" | cut -c1-300 | head -8
done
