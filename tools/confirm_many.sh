#!/bin/bash
# usage: tools/confirm_many.sh <prop>-<suffix> ...
# Like confirm_seed.sh, but all seeds are confirmed one after the other in ONE scratch worktree with one
# target directory, so the dependencies are built once. Writes the confirmation fields of meta.json.
WT=/tmp/cw-shared
git -C /repo worktree add -q --detach $WT HEAD || exit 2
cd $WT
for seed in "$@"; do
  S=/verif/seeded/$seed; prop=${seed%%-*}
  git checkout -q -- . ; git clean -fdq -e target
  git apply $S/patch.diff || { echo "$seed PATCH DOES NOT APPLY"; continue; }
  cargo nextest run --workspace --no-fail-fast --offline --test-threads 8 > $S/.suite.log 2>&1
  res_suite=$(grep -E "^\s+Summary" $S/.suite.log | sed 's/^ *//')
  failed=$(grep -E "^\s+FAIL " $S/.suite.log | awk '{print $NF}' | sort -u | tr '\n' ' ')
  demo=$(ls $S/demo_*.rs | head -1); name=$(basename $demo .rs)
  if [ -f $S/demo_wiring.diff ]; then
    target=$(grep -E "^\+\+\+ b/" $S/demo_wiring.diff | head -1 | sed 's#+++ b/##; s#\.rs$##')
    if [ "$(basename $target)" = "mod" ] || [ "$(basename $target)" = "lib" ]; then target=$(dirname $target); fi
    mkdir -p $target; cp $demo $target/$name.rs
    git apply $S/demo_wiring.diff
    cargo test --offline --lib $name > $S/.demo_with.log 2>&1; dw=$?
    git apply -R $S/patch.diff
    cargo test --offline --lib $name > $S/.demo_without.log 2>&1; dwo=$?
  else
    cp $demo tests/
    cargo test --offline --test $name > $S/.demo_with.log 2>&1; dw=$?
    git apply -R $S/patch.diff
    cargo test --offline --test $name > $S/.demo_without.log 2>&1; dwo=$?
  fi
  python3 - "$S" "$prop" "$res_suite" "$failed" "$dw" "$dwo" <<'PY'
import json,sys,os
S,prop,suite,failed,dw,dwo=sys.argv[1:7]
meta={"breaks_property":prop,"suite_with_change":suite,"suite_failures_with_change":failed.split(),
 "demo_exit_with_change":dw,"demo_exit_without_change":dwo,
 "confirmed": bool(suite) and (failed.split() in ([],["sync_server_tls"])) and dw not in ("0","n/a") and dwo=="0",
 "ran":["one scratch worktree of /repo HEAD for the batch (tools/confirm_many.sh); git apply patch.diff","cargo nextest run --workspace --no-fail-fast --offline","cargo test --offline --test|--lib demo_* (with and without the change)"]}
old={}
if os.path.exists(S+"/meta.json"): old=json.load(open(S+"/meta.json"))
old.update(meta); json.dump(old,open(S+"/meta.json","w"),indent=1)
print(S, json.dumps({k:meta[k] for k in ("suite_with_change","suite_failures_with_change","demo_exit_with_change","demo_exit_without_change","confirmed")}))
PY
  rm -f $S/.suite.log $S/.demo_with.log $S/.demo_without.log
done
cd /verif; git -C /repo worktree remove --force $WT; rm -rf $WT
