#!/usr/bin/env python3
"""Prompt for a later-round mutation sub-agent: property text + worktree + one-line descriptions of the
changes earlier agents already produced for this property (so that the new one differs in kind and place).
Nothing about the checks is given."""
import json, re, subprocess, sys
pid, wt = sys.argv[1], sys.argv[2]
base = subprocess.run([sys.executable, '/verif/tools/agent_prompt.py', pid, wt], capture_output=True, text=True, check=True).stdout
rows = []
for l in open('/verif/DESIGN.md'):
    m = re.match(r'\| ((?:C\d\d-[a-z](?: / )?)+|pinned-[a-z-]+) \| ([^|]*) \| ([^|]*) \|', l)
    if not m: continue
    seed, breaks, needs = m.group(1), m.group(2), m.group(3).strip()
    if pid in seed or pid in breaks:
        rows.append(needs)
avoid = "\n".join(f"  - {r}" for r in rows)
extra = f"""

Earlier rounds already produced the following changes for this property (one line each: what the change was / what it needs to manifest). Yours must differ from ALL of them in kind AND in location - pick a different function, a different mechanism, ideally a different source file among those the property depends on, and a different triggering condition:
{avoid}
Think about parts of the property's statement that none of the above touches."""
marker = "\nAlso write a demonstration:"
print(base.replace(marker, extra + "\n" + marker, 1))
