#!/bin/bash
# usage: tools/try_seed.sh <seed-dir> <tier> <ID> [<ID>...]
# Applies seeded/<dir>/patch.diff to /repo, runs the checks, then ALWAYS reverts /repo.
seed=$1; tier=$2; shift 2
cd /repo || exit 2
if ! git diff --quiet; then echo "/repo has uncommitted changes; refusing"; exit 2; fi
git apply "/verif/seeded/$seed/patch.diff" || { echo "patch does not apply"; exit 2; }
export TCMC_OUT_DIR=/dev/shm/seedtry-$$   # evidence and replay files of a trial never touch /verif
trap 'git -C /repo checkout -- . ; rm -rf $TCMC_OUT_DIR' EXIT
cd /verif
for id in "$@"; do
  out=$(./check "$id" --tier "$tier" 2>&1); code=$?
  echo "== seed=$seed check=$id tier=$tier exit=$code"
  echo "$out" | grep -E "VIOLATION|KNOWN-FINDING|MACHINERY|^violation|^OK" | cut -c1-300 | head -8
done
