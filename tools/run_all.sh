#!/bin/bash
# usage: tools/run_all.sh <tier> [out-dir]   - every check once, sequentially; summary lines only
tier=${1:-quick}; out=${2:-}
[ -n "$out" ] && export TCMC_OUT_DIR=$out
cd /verif
for i in $(seq -w 1 20); do
  id=C$i; s=$(date +%s)
  o=$(./check $id --tier $tier 2>&1); c=$?
  echo "$id exit=$c wall=$(( $(date +%s)-s ))s $(echo "$o" | grep -E 'VIOLATION|KNOWN-FINDING|MACHINERY|capped' | head -3 | cut -c1-200)"
done
