#!/usr/bin/env python3
"""Fill what / needs_to_manifest / caught_by_checks of seeded/<id>/meta.json from the seed table of DESIGN.md
(section 12) for the seeds of one round (suffix letter), keeping the confirmation fields written by confirm_seed.sh."""
import json, os, re, sys
suffix = sys.argv[1]
for l in open('/verif/DESIGN.md'):
    m = re.match(r'\| (C\d\d-%s) \| ([^|]*) \| ([^|]*) \| ([^|]*) \|' % suffix, l)
    if not m: continue
    seed, breaks, needs, caught = [x.strip() for x in m.groups()]
    p = f'/verif/seeded/{seed}/meta.json'
    meta = json.load(open(p)) if os.path.exists(p) else {}
    what, _, need = needs.partition('; needs ')
    meta.setdefault('breaks_property', seed[:3])
    meta['what'] = what
    meta['needs_to_manifest'] = need or needs
    meta['origin'] = "written by a sub-agent that saw only the property text, one line per earlier change for the property, and a scratch worktree (round 5)"
    meta['caught_by_checks'] = sorted(set(re.findall(r'\bC\d\d\b', caught.split(' - ')[0])))
    meta['detection_note'] = caught
    meta['detection_ran'] = [f"tools/try_seed_iso.sh {seed} quick " + " ".join(meta['caught_by_checks'])]
    json.dump(meta, open(p, 'w'), indent=1)
    print(seed, meta['caught_by_checks'], meta.get('confirmed'))
