//! Demonstration of the recorded finding C01 `invalid-operation-rebased` against the public API
//! only (copy to <repo>/tests/ and run `cargo test --offline --test c01_invalid_operation_rebased`;
//! it FAILS on the current tree: the two replicas never converge).
//!
//! Replica 1 creates task T. Replica 0, where T does not exist, commits an update of T - the kind
//! of operation an application produces when it keeps a `TaskData` across a sync that deleted the
//! task. `commit_operations` accepts and records it ("operations that do not make sense are
//! ignored"), and sync then treats it as if it had been valid.

use taskchampion::chrono::Utc;
use taskchampion::storage::inmemory::InMemoryStorage;
use taskchampion::{Operation, Operations, Replica, ServerConfig, Uuid};

#[tokio::test]
async fn replicas_converge_after_an_update_of_a_missing_task() {
    let dir = tempfile::tempdir().unwrap();
    let config = || ServerConfig::Local { server_dir: dir.path().to_path_buf() };
    let t = Uuid::new_v4();
    let mut r0 = Replica::new(InMemoryStorage::new());
    let mut r1 = Replica::new(InMemoryStorage::new());

    // R1: create T
    let mut ops = Operations::new();
    ops.push(Operation::Create { uuid: t });
    r1.commit_operations(ops).await.unwrap();

    // R0: update of T, which does not exist on R0 (ignored locally, but recorded)
    let mut ops = Operations::new();
    ops.push(Operation::Update { uuid: t, property: "p".into(), old_value: None, value: Some("g".into()), timestamp: Utc::now() });
    r0.commit_operations(ops).await.unwrap();
    assert!(r0.get_task_data(t).await.unwrap().is_none());

    // everybody syncs until nothing is left to send
    for _ in 0..3 {
        let mut s = config().into_server().await.unwrap();
        r0.sync(&mut s, true).await.unwrap();
        let mut s = config().into_server().await.unwrap();
        r1.sync(&mut s, true).await.unwrap();
    }
    assert_eq!(r0.num_local_operations().await.unwrap(), 0);
    assert_eq!(r1.num_local_operations().await.unwrap(), 0);

    let on0 = r0.get_task_data(t).await.unwrap().map(|d| d.get("p").map(|s| s.to_string()));
    let on1 = r1.get_task_data(t).await.unwrap().map(|d| d.get("p").map(|s| s.to_string()));
    assert_eq!(on0, on1, "replica 0 and replica 1 hold different data for the task after full synchronization");
}
